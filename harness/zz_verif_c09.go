package astisub

import "time"

// C09 Sync: Add(d) moves every surviving cue by exactly d, clamps starts at 0, drops exactly the dead cues,
// keeps order/identity/content, and Add(-d) restores unclamped survivors.  BV64, no ordering assumed.
func VH_C09_Add() {
	n := choose(vbound("cues+1", 4, 6)) // 0..3 / 0..5 cues
	s := &Subtitles{}
	type pre struct {
		p      *Item
		st, en int64
	}
	var in []pre
	for i := 0; i < n; i++ {
		st := nondetInt64(0, 1<<47)
		en := nondetInt64(0, 1<<47)
		vassume(st <= en)
		it := &Item{StartAt: time.Duration(st), EndAt: time.Duration(en), Index: i + 1, Lines: []Line{{Items: []LineItem{{Text: "x"}}}}}
		s.Items = append(s.Items, it)
		in = append(in, pre{it, st, en})
	}
	d := nondetInt64(-(1 << 47), 1<<47)
	vreach("pre")
	s.Add(time.Duration(d)) // the real code
	k := 0
	type post struct {
		p       *Item
		st, en  int64
		clamped bool
	}
	var surv []post
	for _, c := range in {
		if c.en+d <= 0 {
			continue // dead cue: must be gone
		}
		vassert(k < len(s.Items), "C09 survivor present")
		vassert(s.Items[k] == c.p, "C09 survivor identity and order")
		vassert(int64(s.Items[k].EndAt) == c.en+d, "C09 end shifted by d")
		want := c.st + d
		cl := false
		if want < 0 {
			want = 0
			cl = true
		}
		vassert(int64(s.Items[k].StartAt) == want, "C09 start shifted, clamped at 0")
		vassert(s.Items[k].Index == c.p.Index && len(s.Items[k].Lines) == 1 && s.Items[k].Lines[0].Items[0].Text == "x", "C09 content untouched")
		surv = append(surv, post{c.p, c.st, c.en, cl})
		k++
	}
	vassert(k == len(s.Items), "C09 nothing else survives")
	vreach("shifted")
	// inverse law: Add(-d) restores every cue that was neither clamped nor removed (as long as it survives -d)
	s.Add(time.Duration(-d))
	j := 0
	for _, c := range surv {
		// after the first shift the cue is [max(st+d,0), en+d]; shifting back gives end = en >= 0
		if c.en <= 0 {
			continue // removed by the second shift (end would be <= 0)
		}
		vassert(j < len(s.Items) && s.Items[j] == c.p, "C09 inverse keeps survivor")
		if !c.clamped {
			vassert(int64(s.Items[j].StartAt) == c.st && int64(s.Items[j].EndAt) == c.en, "C09 inverse restores unclamped cue")
		}
		j++
	}
	vreach("end")
}
