package astisub

import "time"

type vc15Quad struct{ a1, d1, a2, d2, num, den int64 } // slope = num/den in lowest terms

func vc15Quads() []vc15Quad {
	h := int64(time.Hour)
	s := int64(time.Second)
	return []vc15Quad{
		{0, 0, 23976 * s, 25000 * s, 3125, 2997}, // 25/23.976
		{0, 0, 25000 * s, 23976 * s, 2997, 3125}, // 23.976/25
		{0, 0, 2997 * s, 3000 * s, 1000, 999},    // 30/29.97
		// reference points late in a long programme and 39 ms apart, odd nanosecond values: any formula that subtracts
		// two products of that size loses the intercept
		{21*h + 123456789, 22*h + 987654321, 21*h + 123456789 + 2997*13000, 22*h + 987654321 + 3125*13000, 3125, 2997},
		{5 * s, 1 * s, 9 * s, 5 * s, 1, 1},                      // slope 1, desired before actual: the images of early instants are negative
		{1 * s, 3 * s, 3 * s, 5 * s, 1, 1},                      // slope 1, offset
		{0, 5 * s, 2 * h, 5*s + h, 1, 2},                        // slope 1/2
		{10 * s, 0, 20 * s, 20 * s, 2, 1},                       // slope 2
		{3 * s, 1 * s, 5 * s, 4 * s, 3, 2},                      // 1.5 (the unit test's)
		{100 * s, 90 * s, 7300 * s, 7283 * s, 7193, 7200},       // slightly below 1
		{h, h + 7, 2 * h, 2*h + 11, 900000000001, 900000000000}, // almost identity, ns offsets
	}
}

// C15 H2: for concrete reference quadruples and every boundary t in [0,24h]: the corrected boundary is within 1 us
// of the affine map through the two reference points; order of boundaries is preserved (positive slope).
func VH_C15_Concrete() {
	vmode("int")
	qs := vc15Quads()
	q := qs[choose(vbound("quadruples", 7, len(qs)))]
	t1 := nondetInt64(0, 24*3600*1000000000)
	t2 := nondetInt64(0, 24*3600*1000000000)
	vassume(t1 <= t2)
	it := &Item{StartAt: time.Duration(t1), EndAt: time.Duration(t2), Index: 7, Lines: []Line{{Items: []LineItem{{Text: "x"}}}}}
	s := &Subtitles{Items: []*Item{it}}
	vreach("pre")
	s.ApplyLinearCorrection(time.Duration(q.a1), time.Duration(q.d1), time.Duration(q.a2), time.Duration(q.d2))
	den := q.den
	num := q.num
	vassert((q.d2-q.d1)/num*den == q.a2-q.a1 && (q.d2-q.d1)%num == 0, "C15 fixture: slope table consistent")
	// |t' - (d1 + (t-a1)*num/den)| <= 1us   <=>   |(t'-d1)*den - (t-a1)*num| <= 1000*den      (den > 0)
	e1 := (int64(it.StartAt)-q.d1)*den - (t1-q.a1)*num
	e2 := (int64(it.EndAt)-q.d1)*den - (t2-q.a1)*num
	tol := 1000 * den
	vassert(e1 <= tol && e1 >= -tol, "C15 start maps to the affine image within 1us")
	vassert(e2 <= tol && e2 >= -tol, "C15 end maps to the affine image within 1us")
	vassert(it.StartAt <= it.EndAt, "C15 order of boundaries preserved (positive slope)")
	// the cue's length is scaled by the slope (to within 2us: both boundaries are within 1us)
	el := (int64(it.EndAt)-int64(it.StartAt))*den - (t2-t1)*num
	vassert(el <= 2*tol && el >= -2*tol, "C15 length scaled by the slope")
	vassert(s.Items[0] == it && it.Index == 7 && len(it.Lines) == 1 && it.Lines[0].Items[0].Text == "x", "C15 text, identity and order untouched")
	vreach("end")
}

// C15: the reference points themselves land on the desired instants (t = a1 -> d1, t = a2 -> d2), symbolic quadruple.
func VH_C15_ReferencePoints() {
	vmode("int")
	day := int64(24 * 3600 * 1000000000)
	a1 := nondetInt64(0, day)
	a2 := nondetInt64(0, day)
	d1 := nondetInt64(0, day)
	d2 := nondetInt64(0, day)
	vassume(a2-a1 >= 1000000)
	// slope in [1/2, 2]
	vassume(2*(d2-d1) >= a2-a1)
	vassume(d2-d1 <= 2*(a2-a1))
	it := &Item{StartAt: time.Duration(a1), EndAt: time.Duration(a2)}
	s := &Subtitles{Items: []*Item{it}}
	vreach("pre")
	s.ApplyLinearCorrection(time.Duration(a1), time.Duration(d1), time.Duration(a2), time.Duration(d2))
	vassert(int64(it.StartAt)-d1 <= 1000 && int64(it.StartAt)-d1 >= -1000, "C15 a1 lands on d1 within 1us")
	vassert(int64(it.EndAt)-d2 <= 1000 && int64(it.EndAt)-d2 >= -1000, "C15 a2 lands on d2 within 1us")
	vreach("end")
}

// C15 H3: list level: every cue's both boundaries are corrected, order, text and style pointers untouched.
func VH_C15_List() {
	vmode("int")
	n := 1 + choose(2)
	st := &Style{ID: "s"}
	s := &Subtitles{}
	type pre struct {
		p      *Item
		t1, t2 int64
	}
	var in []pre
	for i := 0; i < n; i++ {
		t1 := nondetInt64(0, 24*3600*1000000000)
		t2 := nondetInt64(0, 24*3600*1000000000)
		it := &Item{StartAt: time.Duration(t1), EndAt: time.Duration(t2), Style: st, Index: i}
		s.Items = append(s.Items, it)
		in = append(in, pre{it, t1, t2})
	}
	// x -> 2x + 3s : exact in floating point for these ranges
	sec := int64(time.Second)
	s.ApplyLinearCorrection(0, time.Duration(3*sec), time.Duration(10*sec), time.Duration(23*sec))
	vassert(len(s.Items) == n, "C15 list: same cues")
	for i, c := range in {
		it := s.Items[i]
		vassert(it == c.p && it.Style == st && it.Index == i, "C15 list: order and style untouched")
		ds := int64(it.StartAt) - (2*c.t1 + 3*sec)
		de := int64(it.EndAt) - (2*c.t2 + 3*sec)
		vassert(ds <= 1000 && ds >= -1000, "C15 list: every start corrected")
		vassert(de <= 1000 && de >= -1000, "C15 list: every end corrected")
	}
	vreach("end")
}

// C15 H4: a zero-length cue with the float64 steps encoded exactly (IEEE theory, cvc5): for the NTSC/PAL quadruples
// and every instant t of the first 2 s (at 1 ns; the rounding pattern does not depend on the magnitude) a cue [t,t)
// does not come out with its start after its end - which is what happens when the two boundaries are not rounded the
// same way. (Monotonicity for t1 < t2 is left to the relaxed-real harness above: proving it for the exact
// multiplication is out of the solvers' reach - cvc5 and z3 answer unknown after 60 s.)
func VH_C15_OrderExact() {
	vsolver("cvc5")
	qs := vc15Quads()
	q := qs[[]int{3, 9, 0}[choose(vbound("quadruples", 2, 3))]] // two with a fractional intercept, one with intercept 0
	t := nondetInt64(0, 1<<31-4)
	it := &Item{StartAt: time.Duration(t), EndAt: time.Duration(t)}
	s := &Subtitles{Items: []*Item{it}}
	vreach("pre")
	s.ApplyLinearCorrection(time.Duration(q.a1), time.Duration(q.d1), time.Duration(q.a2), time.Duration(q.d2))
	vassert(it.StartAt <= it.EndAt, "C15 exact: a zero-length cue keeps start <= end")
	vreach("end")
}
