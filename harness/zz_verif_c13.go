package astisub

import (
	"bytes"
	"time"
)

type vc13World struct {
	s       *Subtitles
	styles  []*Style
	regions []*Region
}

var vc13Concrete bool // concrete identifiers (the writers then see ordinary strings)

// vc13Build builds a list with an arbitrary (acyclic) reference graph. Shapes are chosen with choose().
func vc13Build(ns, nr, nc int, reducedSecond bool) *vc13World {
	w := &vc13World{s: NewSubtitles()}
	// identifiers are symbolic one-byte strings, pairwise distinct: every identifier comparison and map
	// lookup inside the real code is then a solver decision rather than a concrete string compare
	var ids []string
	newID := func() string {
		if vc13Concrete {
			ids = append(ids, "id"+string(rune('a'+len(ids))))
			return ids[len(ids)-1]
		}
		id := vsymstr(1, "abcdefghijklmnop")
		for _, o := range ids {
			vassume(vnot(veqstr(id, o)))
		}
		ids = append(ids, id)
		return id
	}
	for i := 0; i < ns; i++ {
		st := &Style{ID: newID(), InlineStyle: &StyleAttributes{}}
		w.styles = append(w.styles, st)
		w.s.Styles[st.ID] = st
	}
	// parents: nil or any other style, acyclic (walk at most ns steps)
	for i := 0; i < ns; i++ {
		c := choose(ns)
		if c == 0 {
			continue
		}
		p := w.styles[(i+c)%ns]
		w.styles[i].Style = p
		cur, steps := p, 0
		for cur != nil && steps <= ns {
			vassume(cur != w.styles[i]) // no cycle
			cur = cur.Style
			steps++
		}
	}
	for i := 0; i < nr; i++ {
		r := &Region{ID: newID(), InlineStyle: &StyleAttributes{}}
		if c := choose(ns + 1); c > 0 {
			r.Style = w.styles[c-1]
		}
		w.regions = append(w.regions, r)
		w.s.Regions[r.ID] = r
	}
	for i := 0; i < nc; i++ {
		it := &Item{StartAt: time.Duration(i) * time.Second, EndAt: time.Duration(i+1) * time.Second, Index: i + 1}
		li := LineItem{Text: "x"}
		if c := choose(ns + 1); c > 0 {
			it.Style = w.styles[c-1]
		}
		if !(reducedSecond && i > 0) {
			if c := choose(nr + 1); c > 0 {
				it.Region = w.regions[c-1]
			}
			if c := choose(ns + 1); c > 0 {
				li.Style = w.styles[c-1]
			}
		}
		it.Lines = []Line{{Items: []LineItem{li}}}
		w.s.Items = append(w.s.Items, it)
	}
	return w
}

// C13 Optimize keeps exactly the reachable definitions.
func VH_C13_Optimize() {
	ns := vbound("styles", 2, 3)
	nr := vbound("regions", 1, 2)
	nc := vbound("cues", 1, 2)
	w := vc13Build(ns, nr, nc, true)
	s := w.s
	// snapshot of the cues
	type snap struct {
		p      *Item
		style  *Style
		region *Region
		run    *Style
	}
	var snaps []snap
	for _, it := range s.Items {
		snaps = append(snaps, snap{it, it.Style, it.Region, it.Lines[0].Items[0].Style})
	}
	// reachability fixpoint (harness spec)
	usedS := map[*Style]bool{}
	usedR := map[*Region]bool{}
	var mark func(st *Style)
	mark = func(st *Style) {
		for st != nil && !usedS[st] {
			usedS[st] = true
			st = st.Style
		}
	}
	for _, it := range s.Items {
		mark(it.Style)
		mark(it.Lines[0].Items[0].Style)
		if it.Region != nil {
			usedR[it.Region] = true
			mark(it.Region.Style)
		}
	}
	vreach("pre")
	vmaporder(true)
	s.Optimize()
	vmaporder(false)
	for _, st := range w.styles {
		if usedS[st] {
			vassert(s.Styles[st.ID] == st, "C13 reachable style kept")
		} else {
			vassert(s.Styles[st.ID] == nil, "C13 unreachable style deleted")
		}
	}
	for _, r := range w.regions {
		if usedR[r] {
			vassert(s.Regions[r.ID] == r, "C13 reachable region kept")
		} else {
			vassert(s.Regions[r.ID] == nil, "C13 unreachable region deleted")
		}
	}
	vassert(len(s.Items) == len(snaps), "C13 cues untouched (count)")
	for i, sn := range snaps {
		it := s.Items[i]
		vassert(it == sn.p && it.Style == sn.style && it.Region == sn.region && it.Lines[0].Items[0].Style == sn.run, "C13 cues untouched")
	}
	// every reference left in the list resolves
	for _, st := range s.Styles {
		if st.Style != nil {
			vassert(s.Styles[st.Style.ID] == st.Style, "C13 parent reference of a kept style resolves")
		}
	}
	for _, r := range s.Regions {
		if r.Style != nil {
			vassert(s.Styles[r.Style.ID] == r.Style, "C13 style reference of a kept region resolves")
		}
	}
	// idempotent
	n1, n2 := len(s.Styles), len(s.Regions)
	s.Optimize()
	vassert(len(s.Styles) == n1 && len(s.Regions) == n2, "C13 second Optimize changes nothing")
	vreach("end")
}

// C13 Optimize leaves an empty list alone.
func VH_C13_OptimizeEmpty() {
	w := vc13Build(2, 1, 0, false)
	vreach("pre")
	w.s.Optimize()
	vassert(len(w.s.Styles) == 2 && len(w.s.Regions) == 1, "C13 empty list left alone")
	vreach("end")
}

// C13 RemoveStyling drops only styling.
func VH_C13_RemoveStyling() {
	nc := 1 + choose(vbound("cues", 2, 2))
	s := NewSubtitles()
	st := &Style{ID: "s", InlineStyle: &StyleAttributes{SRTBold: true}}
	rg := &Region{ID: "r", InlineStyle: &StyleAttributes{WebVTTLines: 3}, Style: st}
	s.Styles["s"] = st
	s.Regions["r"] = rg
	type snapLine struct {
		voice string
		texts []string
	}
	type snap struct {
		p      *Item
		st, en time.Duration
		lines  []snapLine
	}
	var snaps []snap
	for i := 0; i < nc; i++ {
		it := &Item{StartAt: time.Duration(nondetInt64(0, 1<<40)), EndAt: time.Duration(nondetInt64(0, 1<<40)), Index: i + 1, Comments: []string{"c"}}
		// which optional styling parts are present: all combinations for the first cue, two patterns for the others
		mask := 7
		if i == 0 {
			mask = choose(8)
		} else {
			mask = []int{7, 2}[choose(2)]
		}
		if mask&1 != 0 {
			it.Style = st
		}
		if mask&2 != 0 {
			it.Region = rg
		}
		if mask&4 != 0 {
			it.InlineStyle = &StyleAttributes{WebVTTAlign: "left"}
		}
		sn := snap{p: it, st: it.StartAt, en: it.EndAt}
		nl, nr, rmask := 1, 2, 1
		if i == 0 {
			nl = 1 + choose(2)
		}
		for l := 0; l < nl; l++ {
			line := Line{VoiceName: []string{"", "Bob"}[l]}
			sl := snapLine{voice: line.VoiceName}
			if i == 0 {
				nr = 1 + choose(2)
				rmask = choose(4)
			}
			for r := 0; r < nr; r++ {
				li := LineItem{Text: []string{"x", "y"}[r], StartAt: time.Duration(1000 + r)} // a run-level (inline) timestamp is timing, not styling
				if (rmask>>uint(r))&1 != 0 {
					li.Style = st
				} else {
					li.InlineStyle = &StyleAttributes{SRTItalics: true}
				}
				line.Items = append(line.Items, li)
				sl.texts = append(sl.texts, li.Text)
			}
			it.Lines = append(it.Lines, line)
			sn.lines = append(sn.lines, sl)
		}
		s.Items = append(s.Items, it)
		snaps = append(snaps, sn)
	}
	vreach("pre")
	s.RemoveStyling()
	vassert(len(s.Regions) == 0 && len(s.Styles) == 0, "C13 RemoveStyling: no definitions left")
	vassert(len(s.Items) == len(snaps), "C13 RemoveStyling: cue count")
	for i, sn := range snaps {
		it := s.Items[i]
		vassert(it == sn.p && it.StartAt == sn.st && it.EndAt == sn.en, "C13 RemoveStyling: timing and order untouched")
		vassert(it.Index == i+1 && len(it.Comments) == 1 && it.Comments[0] == "c", "C13 RemoveStyling: index and comments untouched")
		vassert(it.Style == nil && it.Region == nil && it.InlineStyle == nil, "C13 RemoveStyling: cue styling removed")
		vassert(len(it.Lines) == len(sn.lines), "C13 RemoveStyling: line count")
		for l, sl := range sn.lines {
			vassert(it.Lines[l].VoiceName == sl.voice && len(it.Lines[l].Items) == len(sl.texts), "C13 RemoveStyling: voice names and runs untouched")
			for r, tx := range sl.texts {
				li := it.Lines[l].Items[r]
				vassert(li.Text == tx, "C13 RemoveStyling: text untouched")
				vassert(li.StartAt == time.Duration(1000+r), "C13 RemoveStyling: run timing untouched")
				vassert(li.Style == nil && li.InlineStyle == nil, "C13 RemoveStyling: run styling removed")
			}
		}
	}
	vreach("end")
}

// C13: the optimized list can still be written to every format and read back with the same cues: whatever was
// removed, no reference the writers or the destination's reader follow is left dangling. Every acyclic reference
// graph of 2 / 3 styles, 1 / 2 regions, 2 cues (concrete identifiers), 5 destination formats.
func VH_C13_OptimizeThenWrite() {
	vmode("int")
	vc13Concrete = true
	ns := vbound("styles", 2, 3)
	nr := vbound("regions", 1, 2)
	w := vc13Build(ns, nr, 2, true)
	s := w.s
	s.Optimize()
	vreach("optimized")
	dst := choose(5)
	var buf bytes.Buffer
	var werr, rerr error
	var r *Subtitles
	switch dst {
	case 0:
		werr = s.WriteToSRT(&buf)
	case 1:
		werr = s.WriteToWebVTT(&buf)
	case 2:
		werr = s.WriteToSSA(&buf)
	case 3:
		werr = s.WriteToSTL(&buf)
	case 4:
		werr = vc07WriteTTML(s, &buf)
	}
	vassert(werr == nil, "C13 optimized list: every writer succeeds")
	if werr != nil {
		return
	}
	switch dst {
	case 0:
		r, rerr = ReadFromSRT(bytes.NewReader(buf.Bytes()))
	case 1:
		r, rerr = ReadFromWebVTT(bytes.NewReader(buf.Bytes()))
	case 2:
		r, rerr = ReadFromSSA(bytes.NewReader(buf.Bytes()))
	case 3:
		r, rerr = ReadFromSTL(bytes.NewReader(buf.Bytes()), STLOptions{})
	case 4:
		r, rerr = ReadFromTTML(bytes.NewReader(buf.Bytes()))
	}
	vassert(rerr == nil, "C13 optimized list: what was written reads back")
	if rerr != nil {
		return
	}
	vassert(len(r.Items) == 2, "C13 optimized list: same cues read back")
	for i := 0; i < len(r.Items) && i < 2; i++ {
		vassert(r.Items[i].StartAt == time.Duration(i)*time.Second && r.Items[i].EndAt == time.Duration(i+1)*time.Second, "C13 optimized list: same boundaries read back")
	}
	vreach("end")
}
