package astisub

import (
	"bytes"
	"io"
	"strconv"
	"time"
)

type vrun struct {
	text    string
	b, i, u bool
	color   string
}

type vtextLine struct {
	src  string // what is written in the document
	runs []vrun // what it denotes
}

// the text corpus (concrete: the markup layer is x/net/html, which is not encoded symbolically)
func vc01Corpus() []vtextLine {
	return []vtextLine{
		{"Hello", []vrun{{text: "Hello"}}},
		{"a &amp; b", []vrun{{text: "a & b"}}},
		{"<i>it</i>", []vrun{{text: "it", i: true}}},
		{"x &lt; y", []vrun{{text: "x < y"}}},
		{"<b>bo</b>ld", []vrun{{text: "bo", b: true}, {text: "ld"}}},
		{"<u>un</u> <font color=\"#ff0000\">red</font>", []vrun{{text: "un", u: true}, {text: "red", color: "#ff0000"}}},
		{"é€ &nbsp;x", []vrun{{text: "é€  x"}}},
		{"<b><i>bi</i></b>", []vrun{{text: "bi", b: true, i: true}}},
	}
}

type vcueModel struct {
	st, en int64 // milliseconds
	lines  []vtextLine
}

func v2(x int64) string { return string([]byte{byte('0' + x/10), byte('0' + x%10)}) }
func v3(x int64) string {
	return string([]byte{byte('0' + x/100), byte('0' + x/10%10), byte('0' + x%10)})
}

// vrenderTime renders ms as HH:MM:SS<sep>F with nfrac fraction digits (the dropped digits are assumed zero by the caller).
func vrenderTime(ms int64, sep string, nfrac int) string {
	h, m, s, f := ms/3600000, ms/60000%60, ms/1000%60, ms%1000
	fr := v3(f)[:nfrac]
	return v2(h) + ":" + v2(m) + ":" + v2(s) + sep + fr
}

func vcheckRuns(l Line, want []vrun, tag string) {
	vassert(len(l.Items) == len(want), tag+": number of runs in the line")
	for k, w := range want {
		if k >= len(l.Items) {
			break
		}
		li := l.Items[k]
		vassert(li.Text == w.text, tag+": run text")
		if !w.b && !w.i && !w.u && w.color == "" {
			vassert(li.InlineStyle == nil || (!li.InlineStyle.SRTBold && !li.InlineStyle.SRTItalics && !li.InlineStyle.SRTUnderline && li.InlineStyle.SRTColor == nil), tag+": plain run has no markup")
			continue
		}
		vassert(li.InlineStyle != nil, tag+": styled run carries markup")
		if li.InlineStyle != nil {
			sa := li.InlineStyle
			vassert(sa.SRTBold == w.b && sa.SRTItalics == w.i && sa.SRTUnderline == w.u, tag+": bold/italic/underline of the run")
			if w.color == "" {
				vassert(sa.SRTColor == nil, tag+": no colour")
			} else {
				vassert(sa.SRTColor != nil && *sa.SRTColor == w.color, tag+": font colour of the run")
			}
		}
	}
}

// C01 H1: read(render(model)) = model, over the renderings the format tolerates.  INT encoding.
func VH_C01_ReadRendered() {
	vmode("int")
	k := choose(vbound("renderings", 12, 48)) // rendering profile: each dimension cycles with its own stride
	eol := []string{"\n", "\r\n", "\r"}[k%3]
	bom := (k/3)%2 == 1
	idxKind := (k * 5 / 3) % 3 // numeric, absent, garbage
	blanks := 1 + (k*7/2)%3    // blank lines between cues
	eofBlanks := (k * 3 / 2) % 4
	sep := []string{",", "."}[(k/2)%2]
	nfrac := 1 + (k*2+k/6)%3
	arrow := []string{" --> ", "-->", "  -->  "}[(k+k/3)%3]
	coords := (k/4)%2 == 1
	n := choose(vbound("cues+1", 3, 3))
	corpus := vc01Corpus()
	var model []vcueModel
	for c := 0; c < n; c++ {
		st := nondetInt64(0, 100*3600*1000-1)
		en := nondetInt64(0, 100*3600*1000-1)
		// with fewer than 3 fraction digits the dropped digits must be zero for the rendering to denote the same instant
		if nfrac < 3 {
			q := int64(10)
			if nfrac == 1 {
				q = 100
			}
			vassume(st%q == 0)
			vassume(en%q == 0)
		}
		nl := 1 + choose(2)
		cue := vcueModel{st: st, en: en}
		for l := 0; l < nl; l++ {
			cue.lines = append(cue.lines, corpus[(k+3*c+5*l+choose(2)*4)%len(corpus)])
		}
		// emphasis tags left open: they hold until closed or until the end of the cue, never beyond it
		switch (k + c) % 3 {
		case 1:
			cue.lines[nl-1] = vtextLine{"<i>open", []vrun{{text: "open", i: true}}}
		case 2:
			if nl == 2 {
				cue.lines[0] = vtextLine{"<b>two", []vrun{{text: "two", b: true}}}
				cue.lines[1] = vtextLine{"lines</b>end", []vrun{{text: "lines", b: true}, {text: "end"}}}
			}
		}
		model = append(model, cue)
	}
	// render
	doc := ""
	if bom {
		doc += string(BytesBOM)
	}
	for c, cue := range model {
		switch idxKind {
		case 0:
			doc += string([]byte{byte('1' + c)}) + eol
		case 2:
			doc += "#x" + eol
		}
		doc += vrenderTime(cue.st, sep, nfrac) + arrow + vrenderTime(cue.en, sep, nfrac)
		if coords {
			doc += " X1:10 X2:20 Y1:30 Y2:40"
		}
		doc += eol
		for li, l := range cue.lines {
			doc += l.src
			// with no blank padding at the end of the file the last line may also lack its terminator
			if !(c == len(model)-1 && li == len(cue.lines)-1 && eofBlanks == 0 && k%2 == 1) {
				doc += eol
			}
		}
		if c < len(model)-1 {
			for b := 0; b < blanks; b++ {
				doc += eol
			}
		}
	}
	for b := 0; b < eofBlanks; b++ {
		doc += eol
	}
	vreach("rendered")
	s, err := ReadFromSRT(bytes.NewReader([]byte(doc)))
	vassert(err == nil, "C01 read: well-formed document is accepted")
	vassert(len(s.Items) == len(model), "C01 read: one cue per denoted cue")
	for c, cue := range model {
		if c >= len(s.Items) {
			break
		}
		it := s.Items[c]
		vassert(int64(it.StartAt) == cue.st*1000000, "C01 read: start to the millisecond")
		vassert(int64(it.EndAt) == cue.en*1000000, "C01 read: end to the millisecond")
		if idxKind == 0 {
			vassert(it.Index == c+1, "C01 read: numeric cue number")
		}
		vassert(len(it.Lines) == len(cue.lines), "C01 read: text lines of the cue (no index line, no blank padding)")
		for l, tl := range cue.lines {
			if l < len(it.Lines) {
				vcheckRuns(it.Lines[l], tl.runs, "C01 read")
			}
		}
	}
	vreach("end")
}

func vc01Item(st, en int64, lines []vtextLine) *Item {
	it := &Item{StartAt: time.Duration(st), EndAt: time.Duration(en)}
	for _, tl := range lines {
		var l Line
		for _, r := range tl.runs {
			li := LineItem{Text: r.text}
			if r.b || r.i || r.u || r.color != "" {
				sa := &StyleAttributes{SRTBold: r.b, SRTItalics: r.i, SRTUnderline: r.u}
				if r.color != "" {
					c := r.color
					sa.SRTColor = &c
				}
				li.InlineStyle = sa
			}
			l.Items = append(l.Items, li)
		}
		it.Lines = append(it.Lines, l)
	}
	return it
}

// vdecodeSRTTime: independent decoder of HH:MM:SS,mmm at b[p:p+12]; returns ms and whether the shape is right.
func vdecodeSRTTime(b []byte, p int) (int64, bool) {
	if p+12 > len(b) {
		return 0, false
	}
	ok := b[p+2] == ':' && b[p+5] == ':' && b[p+8] == ','
	for _, i := range []int{0, 1, 3, 4, 6, 7, 9, 10, 11} {
		ok = vand(ok, vand(b[p+i] >= '0', b[p+i] <= '9'))
	}
	hh, e1 := strconv.Atoi(string(b[p : p+2]))
	mm, e2 := strconv.Atoi(string(b[p+3 : p+5]))
	ss, e3 := strconv.Atoi(string(b[p+6 : p+8]))
	ff, e4 := strconv.Atoi(string(b[p+9 : p+12]))
	if e1 != nil || e2 != nil || e3 != nil || e4 != nil {
		return 0, false
	}
	h, m, s, f := int64(hh), int64(mm), int64(ss), int64(ff)
	ok = vand(ok, vand(m < 60, s < 60))
	return ((h*60+m)*60+s)*1000 + f, ok
}

// C01 H2: write, then (a) an independent decoder and (b) the library's own reader recover the cues.
func VH_C01_WriteRead() {
	vmode("int")
	n := 1 + choose(2)
	corpus := vc01Corpus()
	kc := choose(vbound("timeclasses", 24, 24)) // digit-shape class of the timestamps
	k := kc % len(corpus)                       // which texts: every corpus entry appears as first line of the first cue
	s := NewSubtitles()
	var model []vcueModel
	for c := 0; c < n; c++ {
		st := nondetInt64(0, 100*3600*1000000000-1) // nanoseconds: the writer truncates to ms
		en := nondetInt64(0, 100*3600*1000000000-1)
		vtimeClass(st, (kc*7+c)%24)
		vtimeClass(en, (kc*11+5*c+3)%24)
		nl := 1 + (k+c)%2
		var lines []vtextLine
		for l := 0; l < nl; l++ {
			lines = append(lines, corpus[(k+3*c+5*l)%len(corpus)])
		}
		model = append(model, vcueModel{st: st, en: en, lines: lines})
		s.Items = append(s.Items, vc01Item(st, en, lines))
	}
	var buf bytes.Buffer
	vassert(s.WriteToSRT(&buf) == nil, "C01 write succeeds")
	out := buf.Bytes()
	vreach("written")
	// (a) independent decoder: BOM, then per cue "<k>\n<time> --> <time>\n<lines>\n" separated by a blank line
	p := 0
	vassert(len(out) >= 3 && out[0] == 0xef && out[1] == 0xbb && out[2] == 0xbf, "C01 write: BOM")
	p = 3
	for c, cue := range model {
		vassert(p+2 <= len(out) && out[p] == byte('1'+c) && out[p+1] == '\n', "C01 write: cues numbered consecutively")
		p += 2
		t1, ok1 := vdecodeSRTTime(out, p)
		vassert(ok1, "C01 write: start timestamp has the SubRip shape")
		vassert(t1 == cue.st/1000000, "C01 write: start denotes the cue's start truncated to ms")
		p += 12
		vassert(p+5 <= len(out) && string(out[p:p+5]) == " --> ", "C01 write: arrow")
		p += 5
		t2, ok2 := vdecodeSRTTime(out, p)
		vassert(ok2, "C01 write: end timestamp has the SubRip shape")
		vassert(t2 == cue.en/1000000, "C01 write: end denotes the cue's end truncated to ms")
		p += 12
		vassert(p < len(out) && out[p] == '\n', "C01 write: newline after timing")
		p++
		for _, tl := range cue.lines {
			// expected rendering of the line by an independent encoder
			want := ""
			for _, r := range tl.runs {
				open, close := "", ""
				if r.color != "" {
					open += "<font color=\"" + r.color + "\">"
					close = "</font>" + close
				}
				if r.b {
					open += "<b>"
					close = "</b>" + close
				}
				if r.i {
					open += "<i>"
					close = "</i>" + close
				}
				if r.u {
					open += "<u>"
					close = "</u>" + close
				}
				txt := ""
				for _, ch := range r.text {
					switch ch {
					case '&':
						txt += "&amp;"
					case '<':
						txt += "&lt;"
					case 0xa0:
						txt += "&nbsp;"
					default:
						txt += string(ch)
					}
				}
				want += open + txt + close
			}
			want += "\n"
			vassert(p+len(want) <= len(out) && string(out[p:p+len(want)]) == want, "C01 write: text line with markup and escaping")
			p += len(want)
		}
		if c < len(model)-1 {
			vassert(p < len(out) && out[p] == '\n', "C01 write: blank line between cues")
			p++
		}
	}
	vassert(p == len(out), "C01 write: nothing else in the document")
	vreach("decoded")
	// (b) the library's own reader
	r, err := ReadFromSRT(bytes.NewReader(out))
	vassert(err == nil && len(r.Items) == len(model), "C01 write->read: same number of cues")
	for c, cue := range model {
		if c >= len(r.Items) {
			break
		}
		it := r.Items[c]
		vassert(int64(it.StartAt) == cue.st/1000000*1000000 && int64(it.EndAt) == cue.en/1000000*1000000, "C01 write->read: times truncated to ms")
		vassert(len(it.Lines) == len(cue.lines), "C01 write->read: lines")
		for l, tl := range cue.lines {
			if l < len(it.Lines) {
				vcheckRuns(it.Lines[l], tl.runs, "C01 write->read")
			}
		}
	}
	vreach("end")
}

// C01 H3: escaping lemma on arbitrary short byte strings.  BV8.
func VH_C01_Escaping() {
	n := choose(vbound("bytes+1", 5, 6))
	s := vsymstr(n, "&<ab;lt\xc2\xa0np")
	e := escapeHTML(s)
	for i := 0; i < len(e); i++ {
		vassert(e[i] != '<', "C01 escape: no raw '<' in escaped text")
	}
	u := unescapeHTML(e)
	vassert(veqstr(u, s), "C01 escape: unescape(escape(s)) == s")
	vreach("end")
}

// vtimeClass constrains a nanosecond instant to one of the 24 digit-shape classes of the textual timestamp writer
// (hours < 10 or not, minutes < 10 or not, seconds < 10 or not, milliseconds < 10, < 100 or not), so that a write
// harness explores each class once per timestamp instead of the product over all timestamps of a document
// (timestamps are rendered by independent calls of a pure function).
func vtimeClass(ns int64, class int) {
	h := ns / 3600000000000
	m := ns / 60000000000 % 60
	sec := ns / 1000000000 % 60
	ms := ns / 1000000 % 1000
	if class&1 == 0 {
		vassume(h < 10)
	} else {
		vassume(h >= 10)
	}
	if class&2 == 0 {
		vassume(m < 10)
	} else {
		vassume(m >= 10)
	}
	if class&4 == 0 {
		vassume(sec < 10)
	} else {
		vassume(sec >= 10)
	}
	switch class / 8 % 3 {
	case 0:
		vassume(ms < 10)
	case 1:
		vassume(ms >= 10)
		vassume(ms < 100)
	default:
		vassume(ms >= 100)
	}
}

// C01 symbolic text: a text line made of symbolic bytes (no '<': the tag-free model of the markup tokenizer) is read
// as one run whose text is the line with surrounding white space trimmed and the three entities replaced; a line
// of white space only is blank padding.  BV8.
func VH_C01_ReadSymbolicText() {
	n := 1 + choose(vbound("bytes", 4, 6))
	txt := vsymstr(n, "a &;lt\t")
	// the line must not itself look like a timing line or be the cue number of a following cue
	doc := "1\n00:00:01,000 --> 00:00:02,000\nfirst\n" + txt + "\n"
	s, err := ReadFromSRT(bytes.NewReader([]byte(doc)))
	vassert(err == nil && len(s.Items) == 1, "C01 text: document accepted")
	if err != nil || len(s.Items) != 1 {
		return
	}
	// independent spec: trim ASCII white space, replace entities left to right
	lo, hi := 0, len(txt)
	for lo < hi && (txt[lo] == ' ' || txt[lo] == '\t') {
		lo++
	}
	for hi > lo && (txt[hi-1] == ' ' || txt[hi-1] == '\t') {
		hi--
	}
	t := txt[lo:hi]
	want := ""
	for i := 0; i < len(t); {
		switch {
		case i+5 <= len(t) && t[i:i+5] == "&amp;":
			want += "&"
			i += 5
		case i+4 <= len(t) && t[i:i+4] == "&lt;":
			want += "<"
			i += 4
		default:
			want += t[i : i+1]
			i++
		}
	}
	it := s.Items[0]
	if lo == hi {
		vassert(len(it.Lines) == 1 && vtextOf(&Item{Lines: it.Lines[:1]}) == "first", "C01 text: a white-space-only line at the end is padding, not text")
		vreach("blank")
		return
	}
	vassert(len(it.Lines) == 2, "C01 text: the first line and the symbolic line")
	if len(it.Lines) == 2 {
		vassert(len(it.Lines[1].Items) == 1 && veqstr(it.Lines[1].Items[0].Text, want), "C01 text: trimmed, entities replaced, nothing else changed")
	}
	vreach("end")
}

// C01 H5: markup of the written runs. One cue, two lines; the first run of the first line carries any of the 16
// combinations of bold / italic / underline / font colour, followed by a plain run, a second styled run and a plain
// second line: what is written is well nested (every tag opened by a run is closed by that run, checked by an
// independent tag scanner) and the library's reader gives every run exactly its own markup back.
func VH_C01_WriteMarkup() {
	m1, m2 := choose(16), choose(16)
	mk := func(text string, m int) vrun {
		r := vrun{text: text, b: m&1 != 0, i: m&2 != 0, u: m&4 != 0}
		if m&8 != 0 {
			r.color = "#00ff00"
		}
		return r
	}
	lines := []vtextLine{{runs: []vrun{mk("one", m1), {text: "two"}, mk("three", m2)}}, {runs: []vrun{{text: "four"}}}}
	s := NewSubtitles()
	s.Items = append(s.Items, vc01Item(1000000000, 2000000000, lines))
	var buf bytes.Buffer
	vassert(s.WriteToSRT(&buf) == nil, "C01 write succeeds")
	out := buf.Bytes()
	vreach("written")
	// independent scanner: inside each text line tags must be balanced per run - after the text of a run and its
	// closing tags the stack of open tags is empty again
	p := -1 // the timing line
	for i := 0; i+4 <= len(out); i++ {
		if out[i] == '\n' && out[i+1] == '0' && out[i+2] == '0' && out[i+3] == ':' {
			p = i
			break
		}
	}
	vassert(p >= 0, "C01 markup: timing line present")
	if p < 0 {
		return
	}
	p = p + 1 + bytes.IndexByte(out[p+1:], '\n') + 1
	var stack []string
	for p < len(out) {
		if out[p] == '<' {
			q := bytes.IndexByte(out[p:], '>')
			vassert(q > 0, "C01 markup: tag terminated")
			if q <= 0 {
				return
			}
			tag := string(out[p+1 : p+q])
			if tag[0] == '/' {
				vassert(len(stack) > 0 && stack[len(stack)-1] == tag[1:], "C01 markup: every closing tag closes the innermost open tag")
				if len(stack) == 0 {
					return
				}
				stack = stack[:len(stack)-1]
			} else {
				name := tag
				if sp := bytes.IndexByte([]byte(tag), ' '); sp >= 0 {
					name = tag[:sp]
				}
				stack = append(stack, name)
			}
			p += q + 1
			continue
		}
		if out[p] == '\n' {
			vassert(len(stack) == 0, "C01 markup: no tag left open at the end of a line")
		}
		p++
	}
	vreach("scanned")
	r, err := ReadFromSRT(bytes.NewReader(out))
	vassert(err == nil && len(r.Items) == 1 && len(r.Items[0].Lines) == 2, "C01 markup: reads back as one cue of two lines")
	if err != nil || len(r.Items) != 1 || len(r.Items[0].Lines) != 2 {
		return
	}
	// adjacent runs with the same markup are one run in the format: compare character by character
	for l := 0; l < 2; l++ {
		var want, got []vrun
		for _, w := range lines[l].runs {
			for k := 0; k < len(w.text); k++ {
				want = append(want, vrun{text: w.text[k : k+1], b: w.b, i: w.i, u: w.u, color: w.color})
			}
		}
		for _, li := range r.Items[0].Lines[l].Items {
			g := vrun{}
			if sa := li.InlineStyle; sa != nil {
				g.b, g.i, g.u = sa.SRTBold, sa.SRTItalics, sa.SRTUnderline
				if sa.SRTColor != nil {
					g.color = *sa.SRTColor
				}
			}
			for k := 0; k < len(li.Text); k++ {
				c := g
				c.text = li.Text[k : k+1]
				got = append(got, c)
			}
		}
		vassert(len(got) == len(want), "C01 markup: same text read back")
		for k := range want {
			if k < len(got) {
				vassert(got[k] == want[k], "C01 markup: every character reads back with exactly the markup of its run")
			}
		}
	}
	vreach("end")
}

// vc01TwoChunks delivers data[:k], then the rest, then EOF: the small-scale equivalent of a line break falling on
// the boundary of the scanner's 4096-byte buffer in a long document.
type vc01TwoChunks struct {
	data []byte
	k    int
	pos  int
}

func (r *vc01TwoChunks) Read(p []byte) (int, error) {
	if r.pos >= len(r.data) {
		return 0, io.EOF
	}
	end := len(r.data)
	if r.pos < r.k {
		end = r.k
	}
	n := copy(p, r.data[r.pos:end])
	r.pos += n
	return n, nil
}

// C01 line endings at a buffer boundary: a document in each line-ending convention denotes the same cues wherever
// the reader's buffer boundary falls (every split position of a two-read delivery, in particular between CR and LF).
func VH_C01_LineEndingBoundary() {
	eol := []string{"\n", "\r\n", "\r"}[choose(3)]
	doc := "1" + eol + "00:00:01,000 --> 00:00:02,500" + eol + "a" + eol + "b" + eol + eol + "2" + eol + "00:00:03,000 --> 00:00:04,000" + eol + "c" + eol
	data := []byte(doc)
	k := choose(len(data) + 1)
	vreach("pre")
	s, err := ReadFromSRT(&vc01TwoChunks{data: data, k: k})
	vassert(err == nil, "C01 boundary: document is read")
	if err != nil {
		return
	}
	vassert(len(s.Items) == 2, "C01 boundary: two cues whatever the line-ending convention and buffer boundary")
	if len(s.Items) != 2 {
		return
	}
	a, b := s.Items[0], s.Items[1]
	vassert(a.StartAt == time.Second && a.EndAt == 2500*time.Millisecond, "C01 boundary: first cue times")
	vassert(b.StartAt == 3*time.Second && b.EndAt == 4*time.Second, "C01 boundary: second cue times")
	vassert(len(a.Lines) == 2 && len(b.Lines) == 1, "C01 boundary: text lines of each cue")
	if len(a.Lines) == 2 && len(b.Lines) == 1 {
		vassert(a.Lines[0].String() == "a" && a.Lines[1].String() == "b" && b.Lines[0].String() == "c", "C01 boundary: line texts")
	}
	vassert(a.Index == 1 && b.Index == 2, "C01 boundary: cue numbers")
	vreach("end")
}
