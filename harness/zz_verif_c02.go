package astisub

import (
	"bytes"
	"strconv"
	"strings"
	"time"
)

type vvttRun struct {
	text    string
	tags    []WebVTTTag
	startMs int64
}

type vvttLine struct {
	src   string
	voice string
	runs  []vvttRun
}

func vc02Corpus() []vvttLine {
	b := WebVTTTag{Name: "b"}
	i := WebVTTTag{Name: "i"}
	return []vvttLine{
		{"Hello", "", []vvttRun{{text: "Hello"}}},
		{"<v Bob>Hi there", "Bob", []vvttRun{{text: "Hi there"}}},
		{"<b>bold</b> plain", "", []vvttRun{{text: "bold", tags: []WebVTTTag{b}}, {text: " plain"}}},
		{"<c.yellow.bg>col</c>", "", []vvttRun{{text: "col", tags: []WebVTTTag{{Name: "c", Classes: []string{"yellow", "bg"}}}}}},
		{"<i><b>both</b></i>", "", []vvttRun{{text: "both", tags: []WebVTTTag{i, b}}}},
		{"a &amp; b &lt; c", "", []vvttRun{{text: "a & b < c"}}},
		{"one <00:00:01.500>two", "", []vvttRun{{text: "one "}, {text: "two", startMs: 1500}}},
		{"<lang en>x</lang>", "", []vvttRun{{text: "x", tags: []WebVTTTag{{Name: "lang", Annotation: "en"}}}}},
		// an inline timestamp inside a tag stack: the text before it is under the same tags as the text after it
		{"<c.loud><i>before <00:00:05.000>after</i></c>", "", []vvttRun{{text: "before ", tags: []WebVTTTag{{Name: "c", Classes: []string{"loud"}}, i}},
			{text: "after", tags: []WebVTTTag{{Name: "c", Classes: []string{"loud"}}, i}, startMs: 5000}}},
	}
}

type vvttCue struct {
	st, en   int64 // ms
	comments []string
	id       int // 0: absent
	settings map[string]string
	region   string
	lines    []vvttLine
}

func vrenderVTT(ms int64, forceHours bool) string {
	h, m, s, f := ms/3600000, ms/60000%60, ms/1000%60, ms%1000
	r := v2(m) + ":" + v2(s) + "." + v3(f)
	if forceHours {
		r = v2(h) + ":" + r
	}
	return r
}

func vcheckVTTLine(l Line, want vvttLine, tag string) {
	vassert(l.VoiceName == want.voice, tag+": voice name of the line")
	vassert(len(l.Items) == len(want.runs), tag+": number of runs")
	for k, w := range want.runs {
		if k >= len(l.Items) {
			break
		}
		li := l.Items[k]
		vassert(li.Text == w.text, tag+": run text")
		vassert(int64(li.StartAt) == w.startMs*1000000, tag+": inline timestamp of the run")
		if len(w.tags) == 0 {
			vassert(li.InlineStyle == nil || len(li.InlineStyle.WebVTTTags) == 0, tag+": untagged run")
			continue
		}
		vassert(li.InlineStyle != nil && len(li.InlineStyle.WebVTTTags) == len(w.tags), tag+": tag stack depth")
		if li.InlineStyle != nil && len(li.InlineStyle.WebVTTTags) == len(w.tags) {
			for t, wt := range w.tags {
				g := li.InlineStyle.WebVTTTags[t]
				vassert(g.Name == wt.Name && g.Annotation == wt.Annotation && strings.Join(g.Classes, ".") == strings.Join(wt.Classes, "."), tag+": tag name, classes and annotation")
			}
		}
	}
}

var vc02SettingKeys = []string{"align", "line", "position", "size", "vertical"}
var vc02SettingVals = []string{"left", "10%", "20%", "80%", "rl"}

func vc02Model(k int, n int, nreg int, ns bool) []vvttCue {
	corpus := vc02Corpus()
	var cues []vvttCue
	for c := 0; c < n; c++ {
		cue := vvttCue{settings: map[string]string{}}
		if ns {
			cue.st = nondetInt64(0, 100*3600*1000000000-1)
			cue.en = nondetInt64(0, 100*3600*1000000000-1)
			vtimeClass(cue.st, (k*7+c)%24)
			vtimeClass(cue.en, (k*11+5*c+3)%24)
		} else {
			cue.st = nondetInt64(0, 100*3600*1000-1)
			cue.en = nondetInt64(0, 100*3600*1000-1)
		}
		for q := 0; q < (k+c)%3; q++ {
			if q == 1 {
				cue.comments = append(cue.comments, "2024") // a continuation line of a note may look like a cue identifier
			} else {
				cue.comments = append(cue.comments, "note"+strconv.Itoa(q))
			}
		}
		if (k+c)%2 == 0 {
			cue.id = 7 + c
		}
		mask := (k*5 + c*3) % 32
		for j, key := range vc02SettingKeys {
			if mask&(1<<uint(j)) != 0 {
				cue.settings[key] = vc02SettingVals[j]
			}
		}
		if nreg > 0 && (k+c)%2 == 1 {
			cue.region = "r" + strconv.Itoa(1+(k+c)%nreg)
		}
		nl := 1 + (k+c)%2
		for l := 0; l < nl; l++ {
			cue.lines = append(cue.lines, corpus[(k+3*c+5*l)%len(corpus)])
		}
		if nl == 2 && (k/2+c)%4 == 3 {
			// two consecutive lines spoken by the same voice: each line carries its voice
			cue.lines[0] = corpus[1]
			cue.lines[1] = vvttLine{"<v Bob>again", "Bob", []vvttRun{{text: "again"}}}
		}
		cues = append(cues, cue)
	}
	return cues
}

// C02 H1: read(render(model)) = model.  INT encoding; times, timestamp map symbolic.
func VH_C02_ReadRendered() {
	vmode("int")
	k := choose(vbound("renderings", 12, 48))
	n := choose(3)
	eol := []string{"\n", "\r\n", "\r"}[k%3]
	bom := (k/3)%2 == 1
	nreg := (k / 2) % 3
	hasStyle := (k/4)%2 == 1
	hasMap := (k/5)%2 == 1
	tab := (k/2)%2 == 1
	headerTrail := (k/3)%2 == 0
	cues := vc02Model(k, n, nreg, false)
	var localMs, mpegts int64
	doc := ""
	if bom {
		doc += string(BytesBOM)
	}
	doc += "WEBVTT"
	if headerTrail {
		doc += " - some title"
	}
	doc += eol
	if hasMap {
		localMs = nondetInt64(0, 100*3600*1000-1)
		mpegts = nondetInt64(0, 8589934591)
		doc += "X-TIMESTAMP-MAP=LOCAL:" + vrenderVTT(localMs, true) + ",MPEGTS:" + strconv.FormatInt(mpegts, 10) + eol
	}
	doc += eol
	if hasStyle {
		doc += "STYLE" + eol + "::cue {" + eol + "color: red }" + eol + eol
	}
	type regModel struct {
		id    string
		attrs map[string]string
	}
	var regs []regModel
	for r := 0; r < nreg; r++ {
		rm := regModel{id: "r" + strconv.Itoa(r+1), attrs: map[string]string{}}
		line := "Region: id=" + rm.id
		mask := (k + 3*r) % 32
		keys := []string{"lines", "regionanchor", "scroll", "viewportanchor", "width"}
		vals := []string{"3", "0%,100%", "up", "10%,90%", "40%"}
		for j, key := range keys {
			if mask&(1<<uint(j)) != 0 {
				rm.attrs[key] = vals[j]
				line += " " + key + "=" + vals[j]
			}
		}
		doc += line + eol
		regs = append(regs, rm)
	}
	if nreg > 0 {
		doc += eol
	}
	for c, cue := range cues {
		for q, cm := range cue.comments {
			if q == 0 {
				doc += "NOTE " + cm + eol
			} else {
				doc += cm + eol
			}
		}
		if len(cue.comments) > 0 {
			doc += eol
		}
		if cue.id != 0 {
			doc += strconv.Itoa(cue.id) + eol
		}
		forceHours := (k+c)%2 == 0
		// hours may only be omitted when they are zero
		if !forceHours {
			vassume(cue.st < 3600000)
			vassume(cue.en < 3600000)
		}
		doc += vrenderVTT(cue.st, forceHours) + " --> " + vrenderVTT(cue.en, forceHours)
		sepc := " "
		if tab {
			sepc = "\t"
		}
		for j, key := range vc02SettingKeys {
			if v, ok := cue.settings[key]; ok {
				_ = j
				doc += sepc + key + ":" + v
			}
		}
		if cue.region != "" {
			doc += sepc + "region:" + cue.region
		}
		doc += eol
		for li, l := range cue.lines {
			doc += l.src
			last := c == len(cues)-1 && li == len(cue.lines)-1
			// the document may end with a blank line, with a single line terminator, or with no terminator at all
			if !(last && (k/2)%3 == 2) {
				doc += eol
			}
		}
		if !(c == len(cues)-1 && (k/2)%3 != 0) {
			doc += eol
		}
	}
	vreach("rendered")
	s, err := ReadFromWebVTT(bytes.NewReader([]byte(doc)))
	vassert(err == nil, "C02 read: well-formed document is accepted")
	if err != nil {
		return
	}
	vassert(len(s.Items) == len(cues), "C02 read: one cue per denoted cue")
	// header
	if hasMap {
		vassert(s.Metadata != nil && s.Metadata.WebVTTTimestampMap != nil, "C02 read: timestamp map present")
		if s.Metadata != nil && s.Metadata.WebVTTTimestampMap != nil {
			tm := s.Metadata.WebVTTTimestampMap
			vassert(int64(tm.Local) == localMs*1000000 && tm.MpegTS == mpegts, "C02 read: timestamp map values")
		}
	}
	if hasStyle {
		st := s.Styles[webvttDefaultStyleID]
		vassert(st != nil && st.InlineStyle != nil && len(st.InlineStyle.WebVTTStyles) == 2 && st.InlineStyle.WebVTTStyles[0] == "::cue {" && st.InlineStyle.WebVTTStyles[1] == "color: red }", "C02 read: STYLE block")
	}
	vassert(len(s.Regions) == len(regs), "C02 read: regions")
	for _, rm := range regs {
		r := s.Regions[rm.id]
		vassert(r != nil && r.ID == rm.id && r.InlineStyle != nil, "C02 read: region defined")
		if r != nil && r.InlineStyle != nil {
			wantLines := 0
			if rm.attrs["lines"] != "" {
				wantLines = 3
			}
			vassert(r.InlineStyle.WebVTTLines == wantLines && r.InlineStyle.WebVTTRegionAnchor == rm.attrs["regionanchor"] && r.InlineStyle.WebVTTScroll == rm.attrs["scroll"] &&
				r.InlineStyle.WebVTTViewportAnchor == rm.attrs["viewportanchor"] && r.InlineStyle.WebVTTWidth == rm.attrs["width"], "C02 read: region attributes")
		}
	}
	for c, cue := range cues {
		if c >= len(s.Items) {
			break
		}
		it := s.Items[c]
		vassert(int64(it.StartAt) == cue.st*1000000, "C02 read: start to the millisecond")
		vassert(int64(it.EndAt) == cue.en*1000000, "C02 read: end to the millisecond")
		vassert(it.Index == cue.id, "C02 read: numeric cue identifier")
		vassert(strings.Join(it.Comments, "|") == strings.Join(cue.comments, "|"), "C02 read: NOTE comments attached to the following cue")
		vassert(it.InlineStyle != nil, "C02 read: cue settings object")
		if it.InlineStyle != nil {
			sa := it.InlineStyle
			vassert(sa.WebVTTAlign == cue.settings["align"] && sa.WebVTTLine == cue.settings["line"] && sa.WebVTTPosition == cue.settings["position"] &&
				sa.WebVTTSize == cue.settings["size"] && sa.WebVTTVertical == cue.settings["vertical"], "C02 read: cue settings")
		}
		if cue.region == "" {
			vassert(it.Region == nil, "C02 read: no region")
		} else {
			vassert(it.Region != nil && it.Region == s.Regions[cue.region], "C02 read: region the cue refers to")
		}
		vassert(len(it.Lines) == len(cue.lines), "C02 read: text lines")
		for l, wl := range cue.lines {
			if l < len(it.Lines) {
				vcheckVTTLine(it.Lines[l], wl, "C02 read")
			}
		}
	}
	vreach("end")
}

func vc02Item(cue vvttCue, regs map[string]*Region) *Item {
	it := &Item{StartAt: time.Duration(cue.st), EndAt: time.Duration(cue.en), Comments: cue.comments, InlineStyle: &StyleAttributes{
		WebVTTAlign: cue.settings["align"], WebVTTLine: cue.settings["line"], WebVTTPosition: cue.settings["position"], WebVTTSize: cue.settings["size"], WebVTTVertical: cue.settings["vertical"]}}
	if len(cue.settings) == 0 {
		it.InlineStyle = nil // no cue settings: the optional attributes object is absent
	}
	if cue.region != "" {
		it.Region = regs[cue.region]
	}
	for _, wl := range cue.lines {
		l := Line{VoiceName: wl.voice}
		for _, r := range wl.runs {
			li := LineItem{Text: r.text, StartAt: time.Duration(r.startMs) * time.Millisecond}
			if len(r.tags) > 0 {
				li.InlineStyle = &StyleAttributes{WebVTTTags: r.tags}
			}
			l.Items = append(l.Items, li)
		}
		it.Lines = append(it.Lines, l)
	}
	return it
}

// C02 H2: write, then the library's reader recovers the model; cues are numbered consecutively; a referenced region
// is defined earlier in the file; timestamps have the WebVTT shape and denote the truncated instants.
func VH_C02_WriteRead() {
	vmode("int")
	k := choose(vbound("shapes", 24, 48))
	n := 1 + choose(2)
	nreg := k % 3
	cues := vc02Model(k, n, nreg, true)
	if k%6 == 1 {
		// a cue that refers to a region but carries no cue settings of its own
		cues[0].settings = map[string]string{}
		cues[0].region = "r1"
	}
	s := NewSubtitles()
	for r := 0; r < nreg; r++ {
		id := "r" + strconv.Itoa(r+1)
		sa := &StyleAttributes{}
		if (k+r)%2 == 0 {
			sa.WebVTTLines = 3
			sa.WebVTTWidth = "40%"
		} else if k%6 != 1 {
			sa.WebVTTScroll = "up"
		} // else: a region without any setting (what a TTML region without origin/extent becomes): it is still defined
		s.Regions[id] = &Region{ID: id, InlineStyle: sa}
	}
	if (k/3)%2 == 1 {
		loc := nondetInt64(0, 99*3600*1000) * 1000000
		vtimeClass(loc, (k*5+1)%24)
		s.Metadata = &Metadata{WebVTTTimestampMap: &WebVTTTimestampMap{Local: time.Duration(loc), MpegTS: nondetInt64(0, 8589934591)}}
	}
	for c := range cues {
		s.Items = append(s.Items, vc02Item(cues[c], s.Regions))
	}
	var buf bytes.Buffer
	vassert(s.WriteToWebVTT(&buf) == nil, "C02 write succeeds")
	out := buf.Bytes()
	vreach("written")
	vassert(len(out) >= 6 && string(out[:6]) == "WEBVTT", "C02 write: header")
	// every "region:<id>" reference is preceded by its "Region: id=<id>" definition
	txt := string(out)
	for c, cue := range cues {
		if cue.region != "" {
			def := strings.Index(txt, "Region: id="+cue.region)
			use := strings.Index(txt, "region:"+cue.region)
			vassert(def >= 0 && use >= 0 && def < use, "C02 write: a referenced region is defined earlier in the file")
		}
		_ = c
	}
	r, err := ReadFromWebVTT(bytes.NewReader(out))
	vassert(err == nil && len(r.Items) == len(cues), "C02 write->read: same number of cues")
	if err != nil {
		return
	}
	if s.Metadata != nil {
		vassert(r.Metadata != nil && r.Metadata.WebVTTTimestampMap != nil && r.Metadata.WebVTTTimestampMap.MpegTS == s.Metadata.WebVTTTimestampMap.MpegTS &&
			r.Metadata.WebVTTTimestampMap.Local == s.Metadata.WebVTTTimestampMap.Local, "C02 write->read: timestamp map")
	}
	for c, cue := range cues {
		if c >= len(r.Items) {
			break
		}
		it := r.Items[c]
		vassert(it.Index == c+1, "C02 write: cues numbered consecutively")
		vassert(int64(it.StartAt) == cue.st/1000000*1000000, "C02 write->read: start truncated to ms")
		vassert(int64(it.EndAt) == cue.en/1000000*1000000, "C02 write->read: end truncated to ms")
		vassert(strings.Join(it.Comments, "|") == strings.Join(cue.comments, "|"), "C02 write->read: comments")
		if it.InlineStyle != nil {
			sa := it.InlineStyle
			vassert(sa.WebVTTAlign == cue.settings["align"] && sa.WebVTTLine == cue.settings["line"] && sa.WebVTTPosition == cue.settings["position"] &&
				sa.WebVTTSize == cue.settings["size"] && sa.WebVTTVertical == cue.settings["vertical"], "C02 write->read: cue settings")
		}
		if cue.region != "" {
			vassert(it.Region != nil && it.Region.ID == cue.region, "C02 write->read: region reference")
		}
		vassert(len(it.Lines) == len(cue.lines), "C02 write->read: lines")
		for l, wl := range cue.lines {
			if l < len(it.Lines) {
				vcheckVTTLine(it.Lines[l], wl, "C02 write->read")
			}
		}
	}
	vreach("end")
}

// C02 H3: the timestamp map offset is MPEGTS/90000 s - LOCAL, without overflow for 33-bit MPEGTS.
func VH_C02_TimestampMapOffset() {
	vmode("int")
	m := nondetInt64(0, 8589934591)
	l := nondetInt64(0, 100*3600*1000000000)
	t := &WebVTTTimestampMap{Local: time.Duration(l), MpegTS: m}
	off := int64(t.Offset())
	vassert(off == m*1000000000/90000-l, "C02 timestamp map offset")
	var nilMap *WebVTTTimestampMap
	vassert(nilMap.Offset() == 0, "C02 nil timestamp map has no offset")
	vreach("end")
}
