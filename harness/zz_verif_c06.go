package astisub

import (
	"bytes"
	"context"
	"math/bits"

	"github.com/asticode/go-astikit"
	"github.com/asticode/go-astits"
)

// ---- a small teletext encoder (harness side) ----

var vhamEnc [16]byte
var vhamReady bool

func vhamInit() {
	if vhamReady {
		return
	}
	for n := 0; n < 16; n++ {
		for b := 0; b < 256; b++ {
			if v, ok := astikit.ByteHamming84Decode(uint8(b)); ok && int(v) == n {
				vhamEnc[n] = byte(b)
				break
			}
		}
	}
	vhamReady = true
}

func vparity(c byte) byte { // odd parity in bit 7, then bit order reversed as transmitted
	p := c & 0x7f
	if bits.OnesCount8(p)%2 == 0 {
		p |= 0x80
	}
	return bits.Reverse8(p)
}

// vunit builds one EBU data unit carrying packet `packet` of magazine `mag` with 40 payload bytes.
func vunit(id byte, mag, packet int, payload []byte) []byte {
	vhamInit()
	h := byte(packet<<3 | mag&7)
	u := []byte{id, 0x2c, 0x00, 0xe4, vhamEnc[h&0xf], vhamEnc[h>>4]}
	p := make([]byte, 40)
	copy(p, payload)
	return append(u, p...)
}

// vheader: page header packet (packet 0) for page tens/units with control bits.
func vheader(mag, tens, units int, subtitle, serial bool, charset int) []byte {
	vhamInit()
	p := make([]byte, 40)
	p[0], p[1] = vhamEnc[units], vhamEnc[tens]
	for i := 2; i < 8; i++ {
		p[i] = vhamEnc[0]
	}
	if subtitle {
		p[5] = vhamEnc[0x8]
	}
	c := charset << 1
	if serial {
		c |= 1
	}
	p[7] = vhamEnc[c&0xf]
	for i := 8; i < 40; i++ {
		p[i] = vparity(' ')
	}
	return vunit(0x03, mag, 0, p)
}

// vrow: a display row with boxed text.
func vrow(mag, row int, text string) []byte {
	p := make([]byte, 40)
	for i := range p {
		p[i] = vparity(' ')
	}
	p[0], p[1] = vparity(0x0b), vparity(0x0b)
	for i := 0; i < len(text); i++ {
		p[2+i] = vparity(text[i])
	}
	p[2+len(text)], p[3+len(text)] = vparity(0x0a), vparity(0x0a)
	return vunit(0x03, mag, row, p)
}

func vpes(units ...[]byte) []byte {
	d := []byte{0x10}
	for _, u := range units {
		d = append(d, u...)
	}
	return d
}

// ---- NextData provider: the transport-stream demultiplexer (astits) is outside the encoding ----

var vtsData []*astits.DemuxerData
var vtsPos int

var vtsFault bool // the demultiplexer reports a failure of the underlying stream after vtsFaultPos items (C18)
var vtsFaultPos int

func vstubNextData() (*astits.DemuxerData, error) {
	if vtsFault && vtsPos >= vtsFaultPos {
		return nil, verrFault
	}
	if vtsPos >= len(vtsData) {
		return nil, astits.ErrNoMorePackets
	}
	d := vtsData[vtsPos]
	vtsPos++
	return d, nil
}

func vstubRewind() (int64, error) { vtsPos = 0; return 0, nil }

// vpmtData: a PMT announcing the given PIDs as teletext elementary streams.
func vpmtData(pids ...uint16) *astits.DemuxerData {
	var l [][2]int
	for _, pid := range pids {
		l = append(l, [2]int{int(pid), 1})
	}
	return vpmtOf(l)
}

// vpmtOf: a PMT announcing elementary streams {pid, 1 if described as teletext} in that order.
func vpmtOf(l [][2]int) *astits.DemuxerData {
	pmt := &astits.PMTData{}
	for _, e := range l {
		es := &astits.PMTElementaryStream{ElementaryPID: uint16(e[0]), StreamType: astits.StreamTypePrivateData}
		if e[1] == 1 {
			es.ElementaryStreamDescriptors = []*astits.Descriptor{{Tag: astits.DescriptorTagTeletext}}
		}
		pmt.ElementaryStreams = append(pmt.ElementaryStreams, es)
	}
	return &astits.DemuxerData{PMT: pmt}
}

// C06 H7: which elementary stream is read: the PID option when given, else the first stream the PMT describes as
// teletext (whatever its position among the streams); no such stream is the no-valid-PID error. The two PIDs carry
// page 888 with different texts at symbolic presentation times.
func VH_C06_PIDSelection() {
	vmode("int")
	k := choose(6)
	p0 := nondetInt64(0, 8589934591-400000)
	d1 := nondetInt64(1, 100000)
	vtsData, vtsPos = nil, 0
	optPID := 0
	want := "hello" // text carried by PID 100; PID 200 carries "other"
	wantErr := false
	switch k {
	case 0:
		vtsData = append(vtsData, vpmtOf([][2]int{{100, 1}, {200, 0}}))
	case 1:
		vtsData = append(vtsData, vpmtOf([][2]int{{200, 0}, {100, 1}})) // the teletext stream is not the first stream
	case 2:
		vtsData = append(vtsData, vpmtOf([][2]int{{200, 1}, {100, 1}})) // two teletext streams: the first one
		want = "other"
	case 3:
		vtsData = append(vtsData, vpmtOf([][2]int{{100, 0}, {200, 0}})) // none described as teletext
		wantErr = true
	case 4:
		vtsData = append(vtsData, vpmtOf([][2]int{{200, 1}, {100, 0}})) // the option wins over the PMT
		optPID = 100
	default:
		vtsData = append(vtsData, vpmtOf([][2]int{{100, 1}, {200, 1}}))
		optPID = 200
		want = "other"
	}
	for _, pid := range []uint16{200, 100} {
		text := "hello"
		if pid == 200 {
			text = "other"
		}
		vtsData = append(vtsData, vpesData(pid, p0, vpes(vheader(0, 8, 8, true, true, 0), vrow(0, 20, text))))
	}
	for _, pid := range []uint16{100, 200} {
		vtsData = append(vtsData, vpesData(pid, p0+d1, vpes(vheader(0, 8, 8, true, true, 0))))
	}
	vreach("pre")
	s, err := ReadFromTeletext(bytes.NewReader(vtsBytes()), TeletextOptions{PID: optPID, Page: 888})
	if wantErr {
		vassert(err == ErrNoValidTeletextPID, "C06 pid: no stream described as teletext is the no-valid-PID error")
		vreach("end")
		return
	}
	vassert(err == nil, "C06 pid: readable")
	if err != nil {
		return
	}
	vassert(len(s.Items) == 1, "C06 pid: the cues of the selected stream only")
	if len(s.Items) != 1 {
		return
	}
	vassert(vtrimSpaces(vtextOf(s.Items[0])) == want, "C06 pid: the PID option, else the first stream the PMT describes as teletext")
	ns := func(p int64) int64 { return p * 1000000000 / 90000 }
	vassert(int64(s.Items[0].StartAt) == 0 && int64(s.Items[0].EndAt) == ns(p0+d1)-ns(p0), "C06 pid: timing from the selected stream")
	vreach("end")
}

func vpesData(pid uint16, pts int64, payload []byte) *astits.DemuxerData {
	return &astits.DemuxerData{PID: pid, PES: &astits.PESData{Data: payload, Header: &astits.PESHeader{StreamID: astits.StreamIDPrivateStream1,
		OptionalHeader: &astits.PESOptionalHeader{PTS: &astits.ClockReference{Base: pts}}}}}
}

// C06 H6: stream level: one cue per transmitted non-empty instance of the selected page, start/end from the PES
// presentation times relative to the first one; other pages, magazines, PIDs and non-subtitle units contribute nothing.
// vc06Schedule fills the NextData provider with schedule k and presentation times t[0..3] (90 kHz units).
func vc06Schedule(k int, t []int64) {
	serial := k%2 == 1
	vtsData, vtsPos = nil, 0
	// PES 0: instance A of page 888 (rows 20, 22)
	vtsData = append(vtsData, vpesData(100, t[0], vpes(vheader(0, 8, 8, true, serial, 0), vrow(0, 22, "world"), vrow(0, 20, "hello"))))
	// distractors: another PID, PSI-only data, a stuffing unit, a non-subtitle unit, a page of another magazine
	vtsData = append(vtsData, vpesData(200, t[0]+1, vpes(vheader(0, 8, 8, true, serial, 0), vrow(0, 20, "OTHERPID"))))
	vtsData = append(vtsData, &astits.DemuxerData{PID: 0})
	if (k/2)%2 == 1 {
		vtsData = append(vtsData, vpesData(100, t[1], vpes(vunit(0xff, 0, 5, nil), vunit(0x02, 0, 21, []byte{vparity('X')}))))
	}
	if !serial {
		// parallel mode: a header of another magazine does not terminate the page
		vtsData = append(vtsData, vpesData(100, t[1], vpes(vheader(1, 1, 2, true, serial, 0), vrow(1, 21, "MAG1"))))
	}
	// PES: instance B (erase page: no rows) then instance C
	vtsData = append(vtsData, vpesData(100, t[2], vpes(vheader(0, 8, 8, true, serial, 0))))
	vtsData = append(vtsData, vpesData(100, t[3], vpes(vheader(0, 8, 8, true, serial, 0), vrow(0, 21, "bye"))))
	if (k/4)%2 == 1 {
		vtsData = append(vtsData, nil) // the demultiplexer yields nothing (nil data, nil error) at the end of some streams
	}
}

func VH_C06_StreamTiming() {
	vmode("int")
	k := choose(vbound("schedules", 8, 16))
	p0 := nondetInt64(0, 8589934591-400000)
	d1 := nondetInt64(1, 100000)
	d2 := nondetInt64(1, 100000)
	// presentation times non-decreasing: reordered or wrapped 33-bit times are outside the claim (with them "the first
	// presentation time of the stream" is ambiguous: the implementation orders the instances by start)
	d3 := nondetInt64(1, 100000)
	t := []int64{p0, p0 + d1, p0 + d1 + d2, p0 + d1 + d2 + d3}
	vc06Schedule(k, t)
	vreach("pre")
	s, err := ReadFromTeletext(bytes.NewReader(vtsBytes()), TeletextOptions{PID: 100, Page: 888})
	vassert(err == nil, "C06 stream: readable")
	if err != nil {
		return
	}
	vassert(len(s.Items) == 2, "C06 stream: one cue per non-empty instance of the selected page")
	if len(s.Items) != 2 {
		return
	}
	ns := func(p int64) int64 { return p * 1000000000 / 90000 }
	a, c := s.Items[0], s.Items[1]
	vassert(int64(a.StartAt) == 0, "C06 stream: first instance starts at the first presentation time")
	vassert(int64(a.EndAt) == ns(t[2])-ns(t[0]), "C06 stream: an instance ends when the next instance of the page begins")
	vassert(int64(c.StartAt) == ns(t[3])-ns(t[0]), "C06 stream: start is the presentation time of the PES that began the instance")
	vassert(int64(c.EndAt) == ns(t[3])-ns(t[0]), "C06 stream: the last instance ends at the last presentation time")
	vassert(len(a.Lines) == 2 && vtrimSpaces(vtextOf(&Item{Lines: a.Lines[:1]})) == "hello" && vtrimSpaces(vtextOf(&Item{Lines: a.Lines[1:]})) == "world", "C06 stream: boxed text of the rows in row order")
	vassert(len(c.Lines) == 1 && vtrimSpaces(vtextOf(c)) == "bye", "C06 stream: text of the last instance")
	vreach("end")
}

// C06 H1: one page-header packet from an arbitrary buffer state.  BV8; 8 symbolic (raw, Hamming-coded) header bytes.
func VH_C06_HeaderStep() {
	cd := newTeletextCharacterDecoder()
	page := []int{0, 888, 100, 805, 150}[choose(5)]
	selected := page != 0
	selMag, selPage := uint8(page/100), page%100
	b := newTeletextPageBuffer(page, cd)
	t0 := astits.ClockReference{Base: 90000}.Time()
	t1 := astits.ClockReference{Base: 180000}.Time()
	hadPage := choose(2) == 1
	if hadPage {
		b.currentPage = newTeletextPage(0, t0)
		b.receiving = choose(2) == 1
	}
	var prev = b.currentPage
	wasReceiving := b.receiving
	raw := make([]byte, 40)
	for i := 0; i < 8; i++ {
		raw[i] = nondetByte()
	}
	mag := uint8(1 + nondetInt64(0, 7))
	vreach("pre")
	b.parsePacketHeader(raw, mag, t1)
	// invariant
	vassert(vimplies(b.receiving, b.currentPage != nil), "C06 header: receiving implies a current page")
	units, ok1 := astikit.ByteHamming84Decode(raw[0])
	tens, ok2 := astikit.ByteHamming84Decode(raw[1])
	c6, ok3 := astikit.ByteHamming84Decode(raw[5])
	c11, ok4 := astikit.ByteHamming84Decode(raw[7])
	pn := int(tens)*10 + int(units)
	if selected {
		other := vor(pn != selPage, mag != selMag)
		if !(ok1 && ok2 && ok4) {
			vassert(b.currentPage == prev && b.receiving == wasReceiving, "C06 header: an undecodable header changes nothing")
			return
		}
		if other {
			vassert(b.currentPage == prev, "C06 header: a header of another page or magazine never creates or extends a page")
			vassert(b.magazineNumber == selMag && b.pageNumber == selPage, "C06 header: the selected page stays selected")
			vassert(vimplies(b.receiving, wasReceiving), "C06 header: a header of another page never starts reception")
			if wasReceiving && !(tens == 0xf && units == 0xf) {
				serial := c11&1 > 0
				if serial && pn != selPage {
					vassert(!b.receiving, "C06 header: under serial mode any other page number terminates reception")
				}
				if !serial && pn != selPage && mag == selMag {
					vassert(!b.receiving, "C06 header: under parallel mode another page of the same magazine terminates reception")
				}
				if !serial && mag != selMag {
					vassert(b.receiving, "C06 header: under parallel mode a page of another magazine does not terminate reception")
				}
			}
			vreach("other")
			return
		}
		vassert(b.receiving && b.currentPage != nil && b.currentPage != prev, "C06 header: the selected page opens a new instance")
		vassert(b.currentPage.start.Equal(t1), "C06 header: the new instance starts at the packet's time")
		if prev != nil {
			vassert(len(b.donePages) == 1 && b.donePages[0] == prev && prev.end.Equal(t1), "C06 header: the previous instance is closed at the packet's time")
		}
		vreach("selected")
		return
	}
	// no page selected: the first subtitle-flagged header selects it
	if ok1 && ok2 && ok3 && !(tens == 0xf && units == 0xf) && c6&0x8 > 0 {
		vassert(b.magazineNumber == mag && b.pageNumber == pn, "C06 header: with no page selected the first subtitle-flagged header selects it")
		vreach("autoselect")
	}
	vreach("end")
}

// C06 H5: framing: process() on an arbitrary PES payload never panics and ignores what is not EBU subtitle data.
func VH_C06_Framing() {
	n := choose(vbound("bytes+1", 9, 13))
	data := make([]byte, n)
	for i := range data {
		data[i] = nondetByte()
	}
	cd := newTeletextCharacterDecoder()
	b := newTeletextPageBuffer(888, cd)
	t := astits.ClockReference{Base: 90000}.Time()
	vreach("pre")
	ps := b.process(&astits.PESData{Data: data}, t)
	vassert(len(ps) == 0, "C06 framing: a payload this short cannot complete a page")
	vreach("end")
}

// C06/C08: data units inside a well-formed PES payload: arbitrary unit id, declared length 0..44 and content
// (enhancement packets X/26..X/31 included through the symbolic address bytes) never crash the page buffer.
func VH_C06_DataUnits() {
	vhamInit()
	length := int(nondetInt64(0, 44))
	length = int(vconcrete(int64(length)))
	unit := []byte{nondetByteIn("\x02\x03\xff"), byte(length)}
	body := make([]byte, length)
	for i := 0; i < length && i < 8; i++ {
		body[i] = nondetByte()
	}
	if length > 1 {
		body[1] = nondetByteIn("\xe4\x00") // framing code right or wrong
	}
	data := append(append([]byte{0x10}, unit...), body...)
	cd := newTeletextCharacterDecoder()
	b := newTeletextPageBuffer(888, cd)
	t := astits.ClockReference{Base: 90000}.Time()
	if choose(2) == 1 {
		// a page instance is being received
		b.process(&astits.PESData{Data: vpes(vheader(0, 8, 8, true, true, 0))}, t)
	}
	vreach("pre")
	b.process(&astits.PESData{Data: data}, t)
	vassert(vimplies(b.receiving, b.currentPage != nil), "C06 data units: receiving implies a current page")
	vreach("end")
}

// vtsBytes: natively (replay, validation) the data sequence of the NextData provider is multiplexed into a real
// transport stream with astits.Muxer, so that the native run goes through the real demultiplexer; the engine
// intercepts this function (the result is unused there: NextData is provided by vstubNextData).
func vtsBytes() []byte {
	var buf bytes.Buffer
	m := astits.NewMuxer(context.Background(), &buf)
	seen := map[uint16]bool{}
	first := true
	add := func(pid uint16, tele bool) {
		if seen[pid] {
			return
		}
		seen[pid] = true
		es := astits.PMTElementaryStream{ElementaryPID: pid, StreamType: astits.StreamTypePrivateData}
		if tele {
			es.ElementaryStreamDescriptors = []*astits.Descriptor{{Length: 5, Tag: astits.DescriptorTagTeletext, Teletext: &astits.DescriptorTeletext{Items: []*astits.DescriptorTeletextItem{
				{Language: []byte("eng"), Magazine: 0, Page: 0x88, Type: astits.TeletextTypeTeletextSubtitlePage}}}}}
		}
		m.AddElementaryStream(es)
		if first {
			m.SetPCRPID(pid)
			first = false
		}
	}
	// the elementary streams a PMT item of the sequence announces, in its order, those it describes as teletext with the
	// teletext descriptor; then every other PID that carries PES data
	for _, d := range vtsData {
		if d != nil && d.PMT != nil {
			for _, es := range d.PMT.ElementaryStreams {
				add(es.ElementaryPID, len(es.ElementaryStreamDescriptors) > 0)
			}
		}
	}
	for _, d := range vtsData {
		if d != nil && d.PES != nil {
			add(d.PID, false)
		}
	}
	for _, d := range vtsData {
		if d == nil || d.PES == nil {
			continue
		}
		m.WriteData(&astits.MuxerData{PID: d.PID, PES: &astits.PESData{Data: d.PES.Data, Header: &astits.PESHeader{StreamID: astits.StreamIDPrivateStream1,
			OptionalHeader: &astits.PESOptionalHeader{DataAlignmentIndicator: true, MarkerBits: 2, PTS: d.PES.Header.OptionalHeader.PTS, PTSDTSIndicator: astits.PTSDTSIndicatorOnlyPTS}}}})
	}
	return buf.Bytes()
}

// C06 H4: one display row -> runs: text only between start box and end box, parity-failed cells (0) contribute
// nothing, runs split at colour codes, rows of a page in row order.  BV8; 5 / 7 symbolic cells.
func VH_C06_RowToRuns() {
	n := vbound("cells", 5, 6)
	row := make([]byte, 40)
	for i := range row {
		row[i] = ' '
	}
	for i := 0; i < n; i++ {
		row[2+i] = nondetByteIn("ab \x0b\x0a\x03\x00\x0d")
	}
	cd := newTeletextCharacterDecoder()
	cd.updateCharset(astikit.UInt8Ptr(0), false)
	it := &Item{}
	vreach("pre")
	parseTeletextRow(it, cd, nil, row)
	// spec: letters count only while the box is open; a run ends at a colour code that changes the colour and at every
	// size code met while the box is open; blank runs are dropped
	var want []string
	cur := ""
	open := false
	colour := byte(0xff)
	flush := func() {
		if vtrimSpaces(cur) != "" {
			want = append(want, vtrimSpaces(cur))
		}
		cur = ""
	}
	for i := 0; i < 40; i++ {
		c := row[i]
		switch {
		case c == 0x0b:
			open = true
		case c == 0x0a:
			open = false
		case c <= 0x07:
			// a colour code repeating the current colour is outside the claim: the format gives it no meaning and the
			// implementation ends the run or not depending on the size state (six cells are enough to see both)
			vassume(c != colour)
			if open {
				flush()
			}
			colour = c
		case c >= 0x0c && c <= 0x0f:
			if open {
				flush()
			}
		default:
			if open {
				cur += string([]byte{c})
			}
		}
	}
	flush()
	var got []string
	for _, l := range it.Lines {
		for _, li := range l.Items {
			got = append(got, vtrimSpaces(li.Text))
		}
	}
	vassert(len(it.Lines) <= 1, "C06 row: at most one line per row")
	vassert(len(got) == len(want), "C06 row: runs split at colour and size codes, unboxed and blank cells contribute nothing")
	for i := range want {
		if i < len(got) {
			vassert(got[i] == want[i], "C06 row: exactly the boxed text of each run")
		}
	}
	vreach("end")
}

// C06 H3: national character sets: for every charset code of the page header the decoder's G0 differs from the Latin G0
// at the 13 national positions only, and the shared tables are not modified (also serves C20).
func VH_C06_Charset() {
	code := uint8(nondetInt64(0, 7))
	code = uint8(vconcrete(int64(code)))
	cd := newTeletextCharacterDecoder()
	vfreeze()
	// the decoder is reused from one page instance to the next: whatever charset an earlier instance selected, the
	// table after selecting this one is the table a fresh decoder gets
	if prev := choose(9); prev < 8 {
		cd.updateCharset(astikit.UInt8Ptr(uint8(prev)), false)
	}
	cd.updateCharset(astikit.UInt8Ptr(code), false)
	fresh := newTeletextCharacterDecoder()
	fresh.updateCharset(astikit.UInt8Ptr(code), false)
	for i := 0; i < 96; i++ {
		vassert(string(cd.c[i]) == string(fresh.c[i]), "C06 charset: the national character set of a page does not depend on the pages decoded before")
	}
	nat := map[int]bool{}
	for _, p := range teletextNationalSubsetCharactersPositionInG0 {
		nat[int(p)] = true
	}
	for i := 0; i < 96; i++ {
		if !nat[i] {
			vassert(string(cd.c[i]) == string(teletextCharsetG0Latin[i]), "C06 charset: outside the 13 national positions the G0 set is the Latin one")
		}
	}
	vassert(string(cd.decode(0x41)) == "A" && len(cd.decode(0x10)) == 0, "C06 charset: letters decode, control codes give no text")
	vreach("end")
}
