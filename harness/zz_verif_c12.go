package astisub

import "time"

func vc12Items(n int, base int) ([]*Item, []int64) {
	var items []*Item
	var sts []int64
	for i := 0; i < n; i++ {
		st := nondetInt64(0, 1<<46)
		it := &Item{StartAt: time.Duration(st), EndAt: time.Duration(st + 1), Index: base + i}
		items = append(items, it)
		sts = append(sts, st)
	}
	return items, sts
}

// vc12CheckSorted: out is a permutation of orig (pointer identity), starts non-decreasing, ties keep orig order.
func vc12CheckSorted(out []*Item, orig []*Item, sts []int64, tag string) {
	vassert(len(out) == len(orig), tag+": same number of cues")
	prevIdx := -1
	var prevSt int64
	used := make([]bool, len(orig))
	for k, it := range out {
		idx := -1
		for j, o := range orig {
			if o == it {
				idx = j
			}
		}
		vassert(idx >= 0, tag+": only the original cues")
		vassert(!used[idx], tag+": no cue duplicated")
		used[idx] = true
		vassert(int64(it.StartAt) == sts[idx] && it.Index == orig[idx].Index, tag+": cues untouched")
		if k > 0 {
			vassert(prevSt <= sts[idx], tag+": starts non-decreasing")
			vassert(vimplies(prevSt == sts[idx], prevIdx < idx), tag+": equal starts keep their relative order")
		}
		prevIdx, prevSt = idx, sts[idx]
	}
}

// C12 Order is a stable sort by start.
func VH_C12_Order() {
	n := choose(vbound("cues+1", 4, 5))
	items, sts := vc12Items(n, 1)
	s := &Subtitles{Items: append([]*Item{}, items...)}
	vreach("pre")
	s.Order()
	vc12CheckSorted(s.Items, items, sts, "C12 Order")
	vreach("end")
}

// C12 Merge, cue part: stable ordered union, A ahead of B on ties, B untouched.
func VH_C12_MergeItems() {
	na := choose(vbound("A+1", 3, 4))
	nb := choose(vbound("B+1", 3, 3))
	ai, as := vc12Items(na, 1)
	bi, bs := vc12Items(nb, 100)
	a := NewSubtitles()
	a.Items = append([]*Item{}, ai...)
	b := NewSubtitles()
	b.Items = append([]*Item{}, bi...)
	vreach("pre")
	a.Merge(b)
	all := append(append([]*Item{}, ai...), bi...)
	allSt := append(append([]int64{}, as...), bs...)
	vc12CheckSorted(a.Items, all, allSt, "C12 Merge")
	vassert(len(b.Items) == nb, "C12 Merge: B keeps its cues")
	for i := range bi {
		vassert(b.Items[i] == bi[i], "C12 Merge: B's list untouched")
	}
	vreach("end")
}

// C12 Merge, definitions part: union of regions and styles, receiver wins on clashes, B's maps untouched,
// for every iteration order of B's maps.  Receiver built with the constructor.
func VH_C12_MergeMaps() {
	ids := []string{"x", "y", "z"}[:vbound("ids", 2, 3)]
	a, b := NewSubtitles(), NewSubtitles()
	ar, br := map[string]*Region{}, map[string]*Region{}
	as, bs := map[string]*Style{}, map[string]*Style{}
	for _, id := range ids {
		switch choose(4) { // region id in: none, A, B, both
		case 1:
			ar[id] = &Region{ID: id}
		case 2:
			br[id] = &Region{ID: id}
		case 3:
			ar[id] = &Region{ID: id}
			br[id] = &Region{ID: id}
		}
		switch choose(4) {
		case 1:
			as[id] = &Style{ID: id}
		case 2:
			bs[id] = &Style{ID: id}
		case 3:
			as[id] = &Style{ID: id}
			bs[id] = &Style{ID: id}
		}
	}
	for k, v := range ar {
		a.Regions[k] = v
	}
	for k, v := range br {
		b.Regions[k] = v
	}
	for k, v := range as {
		a.Styles[k] = v
	}
	for k, v := range bs {
		b.Styles[k] = v
	}
	a.Items = []*Item{{StartAt: 1}}
	b.Items = []*Item{{StartAt: 2}}
	vreach("pre")
	vmaporder(true) // every iteration order of the maps inside the real code
	a.Merge(b)
	vmaporder(false)
	for _, id := range ids {
		wantR := ar[id]
		if wantR == nil {
			wantR = br[id]
		}
		vassert(a.Regions[id] == wantR, "C12 Merge: region union, receiver wins")
		wantS := as[id]
		if wantS == nil {
			wantS = bs[id]
		}
		vassert(a.Styles[id] == wantS, "C12 Merge: style union, receiver wins")
		vassert(b.Regions[id] == br[id] && b.Styles[id] == bs[id], "C12 Merge: B's definitions untouched")
	}
	n := 0
	for range a.Regions {
		n++
	}
	m := 0
	for range b.Regions {
		m++
	}
	vassert(m == len(br), "C12 Merge: B's region map size untouched")
	cnt := 0
	for _, id := range ids {
		if ar[id] != nil || br[id] != nil {
			cnt++
		}
	}
	vassert(n == cnt, "C12 Merge: no extra region")
	// B itself is unchanged - also by what happens to A afterwards: the two lists share no map
	vc12Detached(a, b, len(br), len(bs), "C12 Merge")
	vreach("end")
}

// vc12Detached: a definition added to or removed from A after the merge does not show in B.
func vc12Detached(a, b *Subtitles, nbr, nbs int, tag string) {
	if a.Regions != nil {
		a.Regions["added-later"] = &Region{ID: "added-later"}
	}
	if a.Styles != nil {
		a.Styles["added-later"] = &Style{ID: "added-later"}
	}
	m := 0
	for range b.Regions {
		m++
	}
	k := 0
	for range b.Styles {
		k++
	}
	vassert(m == nbr && k == nbs, tag+": B unchanged by later changes to A's definitions")
}

// C12 Merge into a receiver built without the constructor (nil maps).
func VH_C12_MergeNoConstructor() {
	a := &Subtitles{}
	b := NewSubtitles()
	if choose(2) == 1 {
		b.Regions["x"] = &Region{ID: "x"}
	}
	if choose(2) == 1 {
		b.Styles["y"] = &Style{ID: "y"}
	}
	na := choose(2)
	for i := 0; i < na; i++ {
		a.Items = append(a.Items, &Item{StartAt: time.Duration(nondetInt64(0, 1000))})
	}
	b.Items = []*Item{{StartAt: time.Duration(nondetInt64(0, 1000))}}
	vreach("pre")
	a.Merge(b)
	vassert(len(a.Items) == na+1, "C12 Merge(no constructor): cues merged")
	vassert(a.Regions["x"] == b.Regions["x"] && a.Styles["y"] == b.Styles["y"], "C12 Merge(no constructor): definitions merged")
	nbr, nbs := 0, 0
	for range b.Regions {
		nbr++
	}
	for range b.Styles {
		nbs++
	}
	vc12Detached(a, b, nbr, nbs, "C12 Merge(no constructor)")
	vreach("end")
}

// C12 Order on longer lists (the standard library switches sorting strategies with the size): 14 / 26 cues whose starts
// follow a fixed pattern with many ties, three of them symbolic.
func VH_C12_OrderLarge() {
	n := vbound("cues", 14, 26)
	var items []*Item
	var sts []int64
	for i := 0; i < n; i++ {
		st := int64((i*7+3)%4) * 1000000000
		if i == 2 || i == n/2 || i == n-2 {
			st = nondetInt64(0, 3) * 1000000000
		}
		items = append(items, &Item{StartAt: time.Duration(st), Index: i})
		sts = append(sts, st)
	}
	s := &Subtitles{Items: append([]*Item{}, items...)}
	vreach("pre")
	s.Order()
	vc12CheckSorted(s.Items, items, sts, "C12 Order(large)")
	vreach("end")
}
