package astisub

import (
	"bytes"
	"io"
)

// vchunkReader delivers data in chunks chosen by the exploration: every Read returns between 0 and len(rest)
// bytes (never two empty reads in a row), the final bytes either together with io.EOF or followed by (0, io.EOF).
type vchunkReader struct {
	data      []byte
	pos       int
	lastEmpty bool
	oneShot   bool
	reads     int
}

func (r *vchunkReader) Read(p []byte) (int, error) {
	rest := len(r.data) - r.pos
	if rest == 0 {
		return 0, io.EOF
	}
	max := rest
	if len(p) < max {
		max = len(p)
	}
	n := max
	if !r.oneShot {
		if r.lastEmpty {
			n = 1 + choose(max)
		} else {
			n = choose(max + 1)
		}
	}
	r.lastEmpty = n == 0
	copy(p, r.data[r.pos:r.pos+n])
	r.pos += n
	r.reads++
	if r.pos == len(r.data) && !r.oneShot && n > 0 && choose(2) == 1 {
		return n, io.EOF // data together with EOF
	}
	return n, nil
}

func vscanAll(r io.Reader) ([][]byte, error) {
	sc := newScanner(r)
	var toks [][]byte
	for sc.Scan() {
		toks = append(toks, append([]byte{}, sc.Bytes()...))
	}
	return toks, sc.Err()
}

// C17 H2: the line scanner (astisub's split function under the real bufio.Scanner) yields the same lines under
// every delivery schedule as under a single read.  BV8; bytes over {CR, LF, other}.
func VH_C17_ScannerSchedules() {
	n := 1 + choose(vbound("bytes", 4, 5))
	data := make([]byte, n)
	for i := range data {
		data[i] = nondetByteIn("\r\nx")
	}
	want, err1 := vscanAll(&vchunkReader{data: data, oneShot: true})
	vreach("oneshot")
	got, err2 := vscanAll(&vchunkReader{data: data})
	vassert(err1 == nil && err2 == nil, "C17 scanner: no error")
	vassert(len(got) == len(want), "C17 scanner: same number of lines under every delivery schedule")
	for i := range want {
		vassert(bytes.Equal(got[i], want[i]), "C17 scanner: same lines under every delivery schedule")
	}
	vreach("end")
}

// C17 H1: prefix-stability of the split function: a token returned on a shorter buffered prefix is the same
// token (and advance) returned on any longer prefix; atEOF is only ever true when the whole input is buffered.
func VH_C17_SplitPrefixStable() {
	n := 1 + choose(vbound("bytes", 6, 8))
	data := make([]byte, n)
	for i := range data {
		data[i] = nondetByteIn("\r\nx")
	}
	split := vscannerSplit(newScanner(bytes.NewReader(nil)))
	k := 1 + choose(n)
	a1, t1, e1 := split(data[:k], k == n && choose(2) == 1)
	vassert(e1 == nil, "C17 split: no error")
	if a1 == 0 && t1 == nil {
		vreach("more")
		return // asked for more data: nothing to compare
	}
	k2 := k + choose(n-k+1)
	a2, t2, e2 := split(data[:k2], k2 == n && choose(2) == 1)
	vassert(e2 == nil, "C17 split: no error")
	if a2 == 0 && t2 == nil {
		// asks for more data on the longer prefix: only legitimate when the first call was made at end of input
		// (then k2 == k == n and the scanner will call again with atEOF set)
		vassert(k == n, "C17 split: a token available on a shorter prefix does not disappear when more is buffered")
		return
	}
	vassert(a1 == a2 && bytes.Equal(t1, t2), "C17 split: token independent of how much was buffered")
	vreach("end")
}

// C17 split progress: at end of input a non-empty buffer always yields a token and advances.
func VH_C17_SplitProgress() {
	n := 1 + choose(vbound("bytes", 6, 8))
	data := make([]byte, n)
	for i := range data {
		data[i] = nondetByteIn("\r\nx")
	}
	split := vscannerSplit(newScanner(bytes.NewReader(nil)))
	a, t, e := split(data, true)
	vassert(e == nil && a > 0 && a <= n && t != nil, "C17 split: progress at end of input")
	vreach("end")
}

// C17 H4: a fixed-size block is read whole under every io.Reader-conformant delivery (short reads, empty reads,
// data together with EOF).
func VH_C17_ReadNBytes() {
	c := 1 + choose(vbound("block", 3, 4))
	extra := choose(2)
	data := make([]byte, c+extra)
	for i := range data {
		data[i] = nondetByte()
	}
	o, err := readNBytes(&vchunkReader{data: data}, c)
	vassert(err == nil, "C17 readNBytes: a stream holding the block yields it without error")
	vassert(len(o) == c && bytes.Equal(o, data[:c]), "C17 readNBytes: exactly the block's bytes")
	vreach("end")
}

// vsplitReader delivers data in two reads split at k (k == len: one read), optionally the tail together with EOF.
type vsplitReader struct {
	data    []byte
	k       int
	pos     int
	withEOF bool
}

func (r *vsplitReader) Read(p []byte) (int, error) {
	if r.pos >= len(r.data) {
		return 0, io.EOF
	}
	end := len(r.data)
	if r.pos < r.k {
		end = r.k
	}
	n := copy(p, r.data[r.pos:end])
	r.pos += n
	if r.pos == len(r.data) && r.withEOF {
		return n, io.EOF
	}
	return n, nil
}

// C17 STL: GSI + TTI blocks parse identically when a block is split across two reads or arrives with EOF.
func VH_C17_STLSchedules() {
	s := NewSubtitles()
	st := nondetInt64(0, 3600) * 1000000000
	s.Items = append(s.Items, &Item{StartAt: 0, EndAt: 1000000000, Lines: []Line{{Items: []LineItem{{Text: "a"}}}}})
	s.Items = append(s.Items, &Item{StartAt: 2000000000, EndAt: 3000000000, Lines: []Line{{Items: []LineItem{{Text: "b"}}}}})
	_ = st
	var buf bytes.Buffer
	err := s.WriteToSTL(&buf)
	vassert(err == nil, "C17 stl: fixture written")
	data := buf.Bytes()
	vassert(len(data) == 1024+2*128, "C17 stl: fixture size")
	// a symbolic frame byte in the first TTI's time-code-in keeps the cue boundary symbolic
	data[1024+8] = byte(nondetInt64(0, 24))
	ks := []int{len(data), 1, 1023, 1024, 1025, 1024 + 64, 1024 + 128, 1024 + 129, len(data) - 1}
	k := ks[choose(len(ks))]
	withEOF := choose(2) == 1
	want, e1 := ReadFromSTL(bytes.NewReader(data), STLOptions{})
	vassert(e1 == nil && len(want.Items) == 2, "C17 stl: one-read parse")
	vreach("oneshot")
	got, e2 := ReadFromSTL(&vsplitReader{data: data, k: k, withEOF: withEOF}, STLOptions{})
	vassert(e2 == nil, "C17 stl: no error under a split delivery")
	vassert(len(got.Items) == len(want.Items), "C17 stl: same number of cues under every delivery")
	for i := range want.Items {
		vassert(got.Items[i].StartAt == want.Items[i].StartAt && got.Items[i].EndAt == want.Items[i].EndAt, "C17 stl: same timing under every delivery")
		vassert(got.Items[i].String() == want.Items[i].String(), "C17 stl: same text under every delivery")
	}
	vreach("end")
}

// vheadReader delivers the first bytes in reads of the given sizes (0 = an empty read), then everything else in one
// read or one byte at a time.
type vheadReader struct {
	data   []byte
	sizes  []int
	pos    int
	call   int
	single bool
}

func (r *vheadReader) Read(p []byte) (int, error) {
	if r.pos >= len(r.data) {
		return 0, io.EOF
	}
	n := len(r.data) - r.pos
	if r.call < len(r.sizes) {
		n = r.sizes[r.call]
	} else if r.single {
		n = 1
	}
	r.call++
	if n > len(p) {
		n = len(p)
	}
	if n > len(r.data)-r.pos {
		n = len(r.data) - r.pos
	}
	copy(p, r.data[r.pos:r.pos+n])
	r.pos += n
	return n, nil
}

// C17: the text readers as a whole (not only the line scanner): a document that begins with a byte-order mark, read
// in one go, or with its first bytes arriving in reads of 0..4 bytes (the mark split anywhere, an empty first read)
// and the rest at once or byte by byte, gives the same cues and metadata.
func VH_C17_TextReaderHead() {
	format := choose(3)
	x := string([]byte{nondetByteIn("0123456789")})
	var doc []byte
	switch format {
	case 0:
		doc = []byte("\xef\xbb\xbf1\n00:00:0" + x + ",000 --> 00:00:1" + x + ",000\nHello\n\n2\n00:00:20,000 --> 00:00:21,000\nWorld\n")
	case 1:
		doc = []byte("\xef\xbb\xbfWEBVTT\n\n1\n00:00:0" + x + ".000 --> 00:00:1" + x + ".000\nHello\n")
	default:
		doc = []byte("\xef\xbb\xbf[Script Info]\nTitle: t\n\n[V4 Styles]\nFormat: Name, Fontname\nStyle: Default,Arial\n\n[Events]\nFormat: Marked, Start, End, Style, Text\nDialogue: Marked=0,0:00:0" + x + ".00,0:00:1" + x + ".00,Default,Hello\n")
	}
	read := func(r io.Reader) (*Subtitles, error) {
		switch format {
		case 0:
			return ReadFromSRT(r)
		case 1:
			return ReadFromWebVTT(r)
		}
		return ReadFromSSA(r)
	}
	want, e1 := read(bytes.NewReader(doc))
	vassert(e1 == nil && len(want.Items) >= 1, "C17 head: one-read parse")
	vreach("oneshot")
	sizes := [][]int{{1}, {2}, {3}, {4}, {0, 1}, {1, 1, 1}, {2, 0, 1}, {0, 3}}[choose(8)]
	got, e2 := read(&vheadReader{data: doc, sizes: sizes, single: choose(2) == 1})
	vassert(e2 == nil, "C17 head: no error when the first bytes arrive in short reads")
	if e2 != nil {
		return
	}
	vassert(vdeepequal(want, got), "C17 head: same cues and metadata however the first bytes are delivered")
	vreach("end")
}
