package astisub

import (
	"bytes"
	"time"
)

var vxmlCaptured []interface{}

// vstubXMLEncode: provider for (*xml.Encoder).Encode (engine only): captures the value handed to the XML layer.
func vstubXMLEncode(v interface{}) error {
	if vxmlFault {
		return verrFault
	}
	vxmlCaptured = append(vxmlCaptured, v)
	return nil
}

func vstrp(s string) *string   { return &s }
func vintp(i int) *int         { return &i }
func vboolp(b bool) *bool      { return &b }
func vf64p(f float64) *float64 { return &f }

// vc19List: a list with ns styles and nr regions whose attribute subsets differ (chosen by the exploration).
func vc19List(ns, nr int) *Subtitles { return vc19ListK(ns, nr, -1) }

// vc19ListK: fixed >= 0 selects attribute pattern (fixed+i)%4 for style i instead of exploring all patterns.
func vc19ListK(ns, nr int, fixed int) *Subtitles {
	s := NewSubtitles()
	s.Metadata = &Metadata{Title: "t", SSAScriptType: "v4.00", Framerate: 25, Language: LanguageEnglish}
	for i := 0; i < ns; i++ {
		sa := &StyleAttributes{}
		pat := (fixed + i) % 4
		if fixed < 0 {
			pat = choose(4)
		}
		switch pat {
		case 0:
			sa.SSABold = vboolp(true)
			sa.SSAFontName = "Arial"
			sa.WebVTTStyles = []string{"::cue(b) {", "color: red }"}
		case 1:
			sa.SSAFontSize = vf64p(12)
			sa.SSAPrimaryColour = &Color{Red: 255}
			sa.WebVTTStyles = []string{"::cue { color: blue }"}
		case 2:
			sa.SSAItalic = vboolp(false)
			sa.SSAMarginLeft = vintp(3)
			sa.TTMLColor = vstrp("#ff0000")
		case 3:
			sa.SSAAlignment = vintp(2)
			sa.SSABold = vboolp(false)
			sa.TTMLTextAlign = vstrp("center")
		}
		st := &Style{ID: "s" + string(rune('0'+i)), InlineStyle: sa}
		s.Styles[st.ID] = st
	}
	for i := 0; i < nr; i++ {
		ra := &StyleAttributes{}
		if (fixed < 0 && choose(2) == 1) || (fixed >= 0 && i%2 == 0) {
			ra.WebVTTLines = 3
			ra.TTMLExtent = vstrp("80% 10%")
		} else {
			ra.WebVTTWidth = "40%"
			ra.TTMLOrigin = vstrp("10% 80%")
		}
		r := &Region{ID: "r" + string(rune('0'+i)), InlineStyle: ra}
		s.Regions[r.ID] = r
	}
	it := &Item{StartAt: time.Second, EndAt: 2 * time.Second, InlineStyle: &StyleAttributes{}, Lines: []Line{{Items: []LineItem{{Text: "hello"}}}}}
	if ns > 0 {
		it.Style = s.Styles["s0"]
	}
	if nr > 0 {
		it.Region = s.Regions["r0"]
	}
	s.Items = append(s.Items, it)
	return s
}

func vc19Write(format int, s *Subtitles) ([]byte, error) {
	var buf bytes.Buffer
	var err error
	switch format {
	case 0:
		err = s.WriteToSRT(&buf)
	case 1:
		err = s.WriteToWebVTT(&buf)
	case 2:
		err = s.WriteToSSA(&buf)
	case 3:
		err = s.WriteToSTL(&buf)
	}
	return buf.Bytes(), err
}

// C19 H1: the same list written twice gives the same bytes whatever order the style/region maps are ranged in.
func VH_C19_MapOrder() {
	vmode("int")
	format := choose(4)
	ns := 1 + choose(vbound("styles", 2, 3))
	nr := choose(vbound("regions+1", 2, 3))
	s := vc19List(ns, nr)
	if format == 1 || format == 2 {
		s.Items[0].StartAt = time.Duration(nondetInt64(0, 9)) * time.Second // symbolic cue boundary
		s.Items[0].EndAt = s.Items[0].StartAt + 10*time.Second
	}
	vreach("pre")
	vmaporder(true)
	b1, e1 := vc19Write(format, s)
	b2, e2 := vc19Write(format, s)
	vmaporder(false)
	vassert(e1 == nil && e2 == nil, "C19 write succeeds")
	vassert(bytes.Equal(b1, b2), "C19 map-order: same list, same bytes")
	vreach("end")
}

// C19 H1 with symbolic identifiers: three styles whose ids are symbolic strings of 1, 2 and 2 bytes over digits and a
// letter (so numeric-looking, mixed and alphabetic ids in every relative order), written twice with independent map
// orders by the writers that emit styles (WebVTT, SSA): the order of the emitted styles may depend on the ids only.
func VH_C19_MapOrderIDs() {
	vmode("int")
	format := 1 + choose(2)
	s := vc19ListK(3, 0, 0)
	ids := []string{vsymstr(1, "012a"), vsymstr(2, "012a"), vsymstr(2, "012a")}
	vassume(vnot(veqstr(ids[1], ids[2])))
	old := s.Styles
	s.Styles = map[string]*Style{}
	for i := 0; i < 3; i++ {
		st := old["s"+string(rune('0'+i))]
		st.ID = ids[i]
		s.Styles[st.ID] = st
	}
	vreach("pre")
	vmaporder(true)
	b1, e1 := vc19Write(format, s)
	b2, e2 := vc19Write(format, s)
	vmaporder(false)
	vassert(e1 == nil && e2 == nil, "C19 write succeeds")
	vassert(bytes.Equal(b1, b2), "C19 map-order: same list with arbitrary style ids, same bytes")
	vreach("end")
}

// C19 H1 for TTML: the value handed to the XML encoder is the same for every map order.
func VH_C19_MapOrderTTML() {
	ns := 1 + choose(vbound("styles", 2, 3))
	nr := choose(vbound("regions+1", 2, 3))
	s := vc19List(ns, nr)
	vxmlCaptured = nil
	vmaporder(true)
	var b1, b2 bytes.Buffer
	e1 := s.WriteToTTML(&b1)
	e2 := s.WriteToTTML(&b2)
	vmaporder(false)
	if vnative() {
		// native run: the real encoder produced the documents
		vassert(e1 == nil && e2 == nil, "C19 ttml write succeeds")
		vassert(bytes.Equal(b1.Bytes(), b2.Bytes()), "C19 map-order: same list, same TTML document value")
		return
	}
	vassert(e1 == nil && e2 == nil && len(vxmlCaptured) == 2, "C19 ttml write succeeds")
	vassert(vdeepequal(vxmlCaptured[0], vxmlCaptured[1]), "C19 map-order: same list, same TTML document value")
	vreach("end")
}

// C19 H1 for TTML, styles that are not in the style map: two or three regions each refer to a style of their own that
// only they know (the list's style map holds other styles or none); every map order gives the same document.
func VH_C19_MapOrderTTMLRegionStyles() {
	ns := choose(2)
	nr := vbound("regions", 2, 3)
	s := vc19ListK(ns, nr, 0)
	for i := 0; i < nr; i++ {
		s.Regions["r"+string(rune('0'+i))].Style = &Style{ID: "u" + string(rune('0'+(i*2+1)%3)), InlineStyle: &StyleAttributes{TTMLColor: vstrp("#00ff00")}}
	}
	vxmlCaptured = nil
	vmaporder(true)
	var b1, b2 bytes.Buffer
	e1 := s.WriteToTTML(&b1)
	e2 := s.WriteToTTML(&b2)
	vmaporder(false)
	if vnative() {
		vassert(e1 == nil && e2 == nil, "C19 ttml write succeeds")
		vassert(bytes.Equal(b1.Bytes(), b2.Bytes()), "C19 map-order: same list, same TTML document value")
		return
	}
	vassert(e1 == nil && e2 == nil && len(vxmlCaptured) == 2, "C19 ttml write succeeds")
	vassert(vdeepequal(vxmlCaptured[0], vxmlCaptured[1]), "C19 map-order: same list, same TTML document value")
	vreach("end")
}

// vc19Clone: deep copy of a cue list (harness code).
func vc19Clone(s *Subtitles) *Subtitles {
	c := &Subtitles{}
	if s.Metadata != nil {
		m := *s.Metadata
		c.Metadata = &m
	}
	cloneSA := func(a *StyleAttributes) *StyleAttributes {
		if a == nil {
			return nil
		}
		b := *a
		b.WebVTTStyles = append([]string(nil), a.WebVTTStyles...)
		b.WebVTTTags = append([]WebVTTTag(nil), a.WebVTTTags...)
		return &b
	}
	styles := map[*Style]*Style{}
	var cloneStyle func(st *Style) *Style
	cloneStyle = func(st *Style) *Style {
		if st == nil {
			return nil
		}
		if c, ok := styles[st]; ok {
			return c
		}
		n := &Style{ID: st.ID, InlineStyle: cloneSA(st.InlineStyle)}
		styles[st] = n
		n.Style = cloneStyle(st.Style)
		return n
	}
	regions := map[*Region]*Region{}
	cloneRegion := func(r *Region) *Region {
		if r == nil {
			return nil
		}
		if c, ok := regions[r]; ok {
			return c
		}
		n := &Region{ID: r.ID, InlineStyle: cloneSA(r.InlineStyle), Style: cloneStyle(r.Style)}
		regions[r] = n
		return n
	}
	if s.Styles != nil {
		c.Styles = map[string]*Style{}
		for k, v := range s.Styles {
			c.Styles[k] = cloneStyle(v)
		}
	}
	if s.Regions != nil {
		c.Regions = map[string]*Region{}
		for k, v := range s.Regions {
			c.Regions[k] = cloneRegion(v)
		}
	}
	for _, it := range s.Items {
		n := &Item{Comments: append([]string(nil), it.Comments...), Index: it.Index, StartAt: it.StartAt, EndAt: it.EndAt,
			InlineStyle: cloneSA(it.InlineStyle), Region: cloneRegion(it.Region), Style: cloneStyle(it.Style)}
		for _, l := range it.Lines {
			nl := Line{VoiceName: l.VoiceName}
			for _, li := range l.Items {
				nl.Items = append(nl.Items, LineItem{InlineStyle: cloneSA(li.InlineStyle), StartAt: li.StartAt, Style: cloneStyle(li.Style), Text: li.Text})
			}
			n.Lines = append(n.Lines, nl)
		}
		c.Items = append(c.Items, n)
	}
	return c
}

// C19 H3: no writer modifies the list it is given.
func VH_C19_Purity() {
	vmode("int")
	format := choose(5)
	s := vc19ListK(2, 1, choose(2))
	s.Items[0].StartAt = time.Duration(nondetInt64(0, 59)) * time.Second
	s.Items[0].EndAt = s.Items[0].StartAt + time.Second
	s.Items = append(s.Items, &Item{StartAt: 5000 * time.Second, EndAt: 5001 * time.Second, Lines: []Line{{VoiceName: "Bob", Items: []LineItem{{Text: "a", InlineStyle: &StyleAttributes{SRTBold: true, WebVTTTags: []WebVTTTag{{Name: "b"}}}}, {Text: "b"}}}}})
	// a cue whose last run and whose last line are empty (what a reader may leave behind)
	s.Items = append(s.Items, &Item{StartAt: 6000 * time.Second, EndAt: 6001 * time.Second, Lines: []Line{{Items: []LineItem{{Text: "Third"}, {Text: ""}}}, {Items: []LineItem{{Text: ""}}}}})
	// a cue with a line without runs between two lines (what the TTML reader returns for a<br/><br/>b)
	s.Items = append(s.Items, &Item{StartAt: 7000 * time.Second, EndAt: 7001 * time.Second, Lines: []Line{{Items: []LineItem{{Text: "first"}}}, {}, {Items: []LineItem{{Text: "third"}}}}})
	before := vc19Clone(s)
	vreach("pre")
	if format == 4 {
		var b bytes.Buffer
		vassert(s.WriteToTTML(&b) == nil, "C19 ttml write succeeds")
	} else {
		_, err := vc19Write(format, s)
		vassert(err == nil, "C19 write succeeds")
	}
	vassert(vdeepequal(before, s), "C19 purity: the writer leaves its input untouched")
	vreach("end")
}

// C19: dates in a zone other than UTC, minutes before and after local midnight (the same UTC day, different calendar
// days): each file carries the calendar day of its own dates, whatever was written before it.
func VH_C19_ZonedDates() {
	zone := time.FixedZone("east", 2*3600)
	mk := func(h, m int, day int) time.Time { return time.Date(2021, 6, day, h, m, 0, 0, zone) }
	dates := []time.Time{mk(23, 58, 30), mk(0, 2, 31), mk(12, 0, 30)}
	want := []string{"210630", "210701", "210630"} // June has 30 days: the 31st is July 1st
	a, b := choose(3), choose(3)
	write := func(i int) []byte {
		s := vc19List(0, 0)
		d := dates[i]
		s.Metadata.STLCreationDate, s.Metadata.STLRevisionDate = &d, &d
		out, err := vc19Write(3, s)
		vassert(err == nil && len(out) > 236, "C19 stl write succeeds")
		return out
	}
	_ = write(a) // history: another file first
	out := write(b)
	if len(out) > 236 {
		vassert(string(out[224:230]) == want[b] && string(out[230:236]) == want[b], "C19 zoned dates: the file carries the calendar day of its own dates, whatever was written before")
	}
	vreach("end")
}

// C19 H2: the STL writer takes its dates from the metadata when present and from the injectable clock otherwise.
func VH_C19_Clock() {
	s := vc19List(0, 0)
	day := 24 * time.Hour
	t0 := time.Date(2020, 1, 2, 0, 0, 0, 0, time.UTC)
	now1 := t0.Add(time.Duration(choose(3)) * day)
	now2 := t0.Add(time.Duration(choose(3)) * day)
	// dates: 0 = not supplied, 1 = both supplied, 2/3 = both supplied, the revision resp. creation date being the zero
	// time (a supplied date is used whatever its value: the clock is only for dates the metadata does not carry)
	dates := choose(4)
	withDates := dates > 0
	if withDates {
		cd, rd := t0.Add(40*day), t0.Add(50*day)
		if dates == 2 {
			rd = time.Time{}
		}
		if dates == 3 {
			cd = time.Time{}
		}
		s.Metadata.STLCreationDate = &cd
		s.Metadata.STLRevisionDate = &rd
	}
	old := Now
	Now = func() time.Time { return now1 }
	b1, e1 := vc19Write(3, s)
	Now = func() time.Time { return now2 }
	b2, e2 := vc19Write(3, s)
	Now = old
	vassert(e1 == nil && e2 == nil, "C19 stl write succeeds")
	if withDates {
		vassert(bytes.Equal(b1, b2), "C19 clock: output independent of the clock when the metadata carries both dates")
	} else {
		same := now1.Equal(now2)
		vassert(vimplies(same, bytes.Equal(b1, b2)), "C19 clock: same instant, same bytes")
	}
	vreach("end")
}

// vc19Variant: a second, different list (other script type, other attribute subsets) used between two writes.
func vc19Variant(v int) *Subtitles {
	s := vc19ListK(2, 1, 1+v)
	if v%2 == 0 {
		s.Metadata.SSAScriptType = "v4.00+"
	}
	s.Items[0].Lines = []Line{{VoiceName: "Ann", Items: []LineItem{{Text: "other", InlineStyle: &StyleAttributes{SRTItalics: true, STLItalics: vboolp(true), WebVTTTags: []WebVTTTag{{Name: "i"}}}}}}}
	return s
}

// C19: writing a list gives the same bytes whatever was written before it in the same process
// (same list, same bytes: no state carried from one write to the next).
func VH_C19_HistoryIndependent() {
	vmode("int")
	format := choose(4)
	a := vc19ListK(2, 1, choose(2))
	if format == 1 || format == 2 {
		a.Items[0].StartAt = time.Duration(nondetInt64(0, 9)) * time.Second
		a.Items[0].EndAt = a.Items[0].StartAt + 10*time.Second
	}
	b1, e1 := vc19Write(format, a)
	other := vc19Variant(choose(2))
	_, e2 := vc19Write(format, other)
	b3, e3 := vc19Write(format, a)
	vassert(e1 == nil && e2 == nil && e3 == nil, "C19 writes succeed")
	vassert(bytes.Equal(b1, b3), "C19 history: same list, same bytes, whatever was written in between")
	vreach("end")
}
