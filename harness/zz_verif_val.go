package astisub

// Translator validation (not a deciding step): each VH_VAL_* harness runs in the engine and natively.
//  - the models of standard-library functions are driven through their SYMBOLIC code path with pinned arguments
//    (vpin: fresh symbolic bytes constrained to known values) and must agree with the real function on the same
//    concrete argument (which the engine evaluates by calling the real function);
//  - the repository's own test inputs and golden files go through the real readers/writers inside the interpreter;
//    what is observed (vobserve) must be identical to what the natively compiled package observes.

import (
	"bytes"
	"fmt"
	"strconv"
	"strings"
	"time"
	"unicode/utf8"
)

func vvalStrings() []string {
	return []string{"", " ", "a", "  a b  ", "\ta\r\n", "a,b,,c", "00:01:02,345", "1 --> 2 --> 3", "x=y=z", "é x", "\xc2\xa0a\xc2\xa0", "&amp;&lt;&nbsp;&am", "AbC-Z", "a b", "\xff\xfe", "  ", "a:b:c:d", "[Events]", "-12", "+7", "007", "12.50", "ff00AA", "9223372036854775807"}
}

func veqstrs(a, b []string) bool {
	if len(a) != len(b) {
		return false
	}
	ok := true
	for i := range a {
		ok = vand(ok, veqstr(a[i], b[i]))
	}
	return ok
}

func VH_VAL_Strings() {
	for _, s := range vvalStrings() {
		p := vpin(s)
		vassert(veqstr(strings.TrimSpace(p), strings.TrimSpace(s)), "VAL strings.TrimSpace")
		for _, sep := range []string{",", ":", "-->", " ", "="} {
			vassert(veqstrs(strings.Split(p, sep), strings.Split(s, sep)), "VAL strings.Split")
			vassert(veqstrs(strings.SplitN(p, sep, 2), strings.SplitN(s, sep, 2)), "VAL strings.SplitN")
			vassert(strings.Contains(p, sep) == strings.Contains(s, sep), "VAL strings.Contains")
			vassert(strings.Count(p, sep) == strings.Count(s, sep), "VAL strings.Count")
			vassert(strings.Index(p, sep) == strings.Index(s, sep), "VAL strings.Index")
			vassert(veqstr(strings.ReplaceAll(p, sep, "|"), strings.ReplaceAll(s, sep, "|")), "VAL strings.ReplaceAll")
			vassert(veqstr(strings.Replace(p, sep, "", 1), strings.Replace(s, sep, "", 1)), "VAL strings.Replace")
			vassert(strings.HasPrefix(p, sep) == strings.HasPrefix(s, sep) && strings.HasSuffix(p, sep) == strings.HasSuffix(s, sep), "VAL strings.HasPrefix/HasSuffix")
			vassert(veqstr(strings.TrimPrefix(p, sep), strings.TrimPrefix(s, sep)), "VAL strings.TrimPrefix")
		}
		vassert(veqstrs(strings.Fields(p), strings.Fields(s)), "VAL strings.Fields")
		vassert(veqstr(strings.ToLower(p), strings.ToLower(s)), "VAL strings.ToLower")
		vassert(veqstr(strings.Trim(p, ". "), strings.Trim(s, ". ")), "VAL strings.Trim")
		vassert(veqstr(strings.Join(strings.Split(p, ","), ";"), strings.Join(strings.Split(s, ","), ";")), "VAL strings.Join")
		vassert(utf8.ValidString(p) == utf8.ValidString(s), "VAL utf8.ValidString")
		vassert(veqstr(escapeHTML(p), escapeHTML(s)), "VAL Replacer (escape)")
		vassert(veqstr(unescapeHTML(p), unescapeHTML(s)), "VAL Replacer (unescape)")
		vassert(veqstr(string(bytes.TrimSpace([]byte(p))), string(bytes.TrimSpace([]byte(s)))), "VAL bytes.TrimSpace")
		vassert(bytes.IndexAny([]byte(p), "\r\n") == bytes.IndexAny([]byte(s), "\r\n"), "VAL bytes.IndexAny")
		n := 0
		for range p {
			n++
		}
		vassert(n == utf8.RuneCountInString(s), "VAL range over string")
	}
	vreach("end")
}

func VH_VAL_Strconv() {
	for _, s := range vvalStrings() {
		p := vpin(s)
		if len(s) <= 18 {
			a1, e1 := strconv.Atoi(p)
			a2, e2 := strconv.Atoi(s)
			vassert((e1 == nil) == (e2 == nil) && (e1 != nil || a1 == a2), "VAL strconv.Atoi")
		}
		if len(s) <= 15 {
			h1, f1 := strconv.ParseInt(p, 16, 64)
			h2, f2 := strconv.ParseInt(s, 16, 64)
			vassert((f1 == nil) == (f2 == nil) && (f1 != nil || h1 == h2), "VAL strconv.ParseInt base 16")
		}
		if len(s) <= 8 && !strings.ContainsAny(s, "eEpPxX_iInN") {
			x1, g1 := strconv.ParseFloat(p, 64)
			x2, g2 := strconv.ParseFloat(s, 64)
			vassert((g1 == nil) == (g2 == nil), "VAL strconv.ParseFloat accepts the same strings")
			if g2 == nil && x2 == float64(int64(x2)) && x2 < 1e6 && x2 > -1e6 {
				vassert(x1 == x2, "VAL strconv.ParseFloat value (integers)")
			}
		}
	}
	for _, v := range []int64{0, 1, 9, 10, 99, 100, 999, 1000, 65535, 99999999, 4294967295, -1, -10, -255, 123456789012} {
		p := vpinInt(v)
		vassert(veqstr(strconv.Itoa(int(p)), strconv.Itoa(int(v))), "VAL strconv.Itoa")
		vassert(veqstr(strconv.FormatInt(p, 10), strconv.FormatInt(v, 10)), "VAL strconv.FormatInt")
		vassert(veqstr(fmt.Sprintf("%d%%", p), fmt.Sprintf("%d%%", v)), "VAL Sprintf %d")
		if v >= 0 && v <= 4294967295 {
			vassert(veqstr(fmt.Sprintf("%.8x", uint32(p)), fmt.Sprintf("%.8x", uint32(v))), "VAL Sprintf %.8x")
		}
	}
	vreach("end")
}

func VH_VAL_Durations() {
	vmode("int")
	for _, v := range []int64{0, 1, 999999, 1000000, 1001000000, 59999000000, 60000000000, 3599999000000, 3600000000000, 359999999000000, 86399960000000, 12345678900000} {
		p := time.Duration(vpinInt(v))
		d := time.Duration(v)
		vassert(veqstr(formatDuration(p, ",", 3), formatDuration(d, ",", 3)), "VAL formatDuration ms")
		vassert(veqstr(formatDuration(p, ".", 2), formatDuration(d, ".", 2)), "VAL formatDuration cs")
		q, e1 := parseDuration(vpin(formatDuration(d, ".", 3)), ".", 3)
		r, e2 := parseDuration(formatDuration(d, ".", 3), ".", 3)
		vassert(e1 == nil && e2 == nil && q == r, "VAL parseDuration")
		if v < 86400000000000 {
			vassert(bytes.Equal(formatDurationSTLBytes(p, 25), formatDurationSTLBytes(d, 25)), "VAL formatDurationSTLBytes 25")
			vassert(bytes.Equal(formatDurationSTLBytes(p, 30), formatDurationSTLBytes(d, 30)), "VAL formatDurationSTLBytes 30")
			vassert(veqstr(formatDurationSTL(p, 30), formatDurationSTL(d, 30)), "VAL formatDurationSTL")
		}
	}
	vreach("end")
}

// VH_VAL_Append: the capacity oracle of append and in-place semantics.
func VH_VAL_Append() {
	var a []*Item
	var b []byte
	var c []Line
	var d []string
	out := ""
	for i := 0; i < 40; i++ {
		a = append(a, &Item{})
		b = append(b, byte(i))
		c = append(c, Line{})
		d = append(d, "x")
		out += fmt.Sprintf("%d:%d/%d/%d/%d ", i, cap(a), cap(b), cap(c), cap(d))
	}
	b2 := append(b[:3], 9, 9)
	e := append([]byte("abc"), "defgh"...)
	e2 := append(e[:2], e[4:]...)
	out += fmt.Sprintf("| %d %d %v %d %s %s", cap(b2), b[3], len(e2), cap(append([]int(nil), 1, 2, 3, 4, 5)), string(e), string(e2))
	vobserve("append", out)
}

func vdigest(s *Subtitles, err error) string {
	if err != nil {
		return "error"
	}
	out := fmt.Sprintf("n=%d", len(s.Items))
	for i, it := range s.Items {
		if i > 2 && i < len(s.Items)-1 {
			continue
		}
		out += fmt.Sprintf(" [%d %d %d %q", it.Index, it.StartAt, it.EndAt, vtextOf(it))
		for _, l := range it.Lines {
			out += fmt.Sprintf(" v=%q/%d", l.VoiceName, len(l.Items))
			for _, li := range l.Items {
				if li.InlineStyle != nil {
					out += fmt.Sprintf(" {%v %v %v %d %q}", li.InlineStyle.SRTBold, li.InlineStyle.SRTItalics, li.InlineStyle.SRTUnderline, len(li.InlineStyle.WebVTTTags), li.InlineStyle.SSAEffect)
				}
			}
		}
		if it.InlineStyle != nil {
			out += fmt.Sprintf(" is=%q/%q/%q", it.InlineStyle.WebVTTAlign, it.InlineStyle.WebVTTLine, it.InlineStyle.WebVTTPosition)
		}
		if it.Style != nil {
			out += " st=" + it.Style.ID
		}
		if it.Region != nil {
			out += " rg=" + it.Region.ID
		}
		out += "]"
	}
	out += fmt.Sprintf(" styles=%d regions=%d md=%v", len(s.Styles), len(s.Regions), s.Metadata != nil)
	return out
}

// VH_VAL_Repo: the repository's own test inputs and goldens through the interpreter.
func VH_VAL_Repo() {
	dir := "/repo/testdata/"
	for _, f := range []string{"example-in.srt", "example-in-non-utf8.srt", "example-in-styled.srt", "missing-sequence-in.srt", "example-in-html-entities.srt", "example-in-carriage-return.srt"} {
		s, err := ReadFromSRT(strings.NewReader(vreadfile(dir + f)))
		vobserve("srt "+f, vdigest(s, err))
		if err == nil && len(s.Items) > 0 {
			var buf bytes.Buffer
			werr := s.WriteToSRT(&buf)
			vobserve("srt write "+f, fmt.Sprintf("%v %d %x", werr, buf.Len(), vsum(buf.Bytes())))
			var b2 bytes.Buffer
			werr = s.WriteToWebVTT(&b2)
			vobserve("srt->vtt "+f, fmt.Sprintf("%v %d %x", werr, b2.Len(), vsum(b2.Bytes())))
		}
	}
	for _, f := range []string{"example-in.vtt", "example-in-non-utf8.vtt", "broken-1-in.vtt"} {
		s, err := ReadFromWebVTT(strings.NewReader(vreadfile(dir + f)))
		vobserve("vtt "+f, vdigest(s, err))
		if err == nil && len(s.Items) > 0 {
			var buf bytes.Buffer
			werr := s.WriteToWebVTT(&buf)
			vobserve("vtt write "+f, fmt.Sprintf("%v %d %x", werr, buf.Len(), vsum(buf.Bytes())))
		}
	}
	for _, f := range []string{"example-in.ssa", "example-in-carriage-return.ssa"} {
		s, err := ReadFromSSA(strings.NewReader(vreadfile(dir + f)))
		vobserve("ssa "+f, vdigest(s, err))
		if err == nil && len(s.Items) > 0 {
			var buf bytes.Buffer
			werr := s.WriteToSSA(&buf)
			vobserve("ssa write "+f, fmt.Sprintf("%v %d %x", werr, buf.Len(), vsum(buf.Bytes())))
		}
	}
	for _, f := range []string{"example-in.stl", "example-opn-in.stl"} {
		s, err := ReadFromSTL(strings.NewReader(vreadfile(dir+f)), STLOptions{})
		vobserve("stl "+f, vdigest(s, err))
		if err == nil && len(s.Items) > 0 {
			var buf bytes.Buffer
			werr := s.WriteToSTL(&buf)
			vobserve("stl write "+f, fmt.Sprintf("%v %d %x", werr, buf.Len(), vsum(buf.Bytes()[256:])))
		}
	}
	// the transformations on a parsed document
	s, _ := ReadFromSRT(strings.NewReader(vreadfile(dir + "example-in.srt")))
	s.Add(-20 * time.Second)
	s.Fragment(3500 * time.Millisecond)
	vobserve("fragment", vdigest(s, nil))
	s.Unfragment()
	s.ForceDuration(time.Minute, true)
	s.ApplyLinearCorrection(time.Second, 2*time.Second, 5*time.Second, 7*time.Second)
	s.Optimize()
	vobserve("transformed", vdigest(s, nil))
}

func vsum(b []byte) uint32 {
	var h uint32 = 2166136261
	for _, c := range b {
		h = (h ^ uint32(c)) * 16777619
	}
	return h
}

// VH_VAL_Teletext: the NextData provider against the real demultiplexer: the engine reads the schedules through the
// stub, the native run multiplexes the same data into a transport stream (astits.Muxer) and reads it through the real
// astits.Demuxer; both must observe the same cues.
func VH_VAL_Teletext() {
	for k := 0; k < 8; k++ {
		vc06Schedule(k, []int64{900000, 990000, 1080000, 1260000})
		s, err := ReadFromTeletext(bytes.NewReader(vtsBytes()), TeletextOptions{PID: 100, Page: 888})
		vobserve(fmt.Sprintf("teletext schedule %d", k), vdigest(s, err))
	}
}

// VH_VAL_TTML: the XML decode provider against the real encoding/xml: the engine hands the decoded-value model to
// ReadFromTTML through the stub, the native run renders the same model as XML and decodes it for real.
func VH_VAL_TTML() {
	for k := 0; k < 16; k++ {
		doc, items, _, _, _ := vc03Doc(k, 7000000000)
		vttmlDoc, vttmlItems, vttmlItemsPos = doc, []TTMLInItems{items}, 0
		s, err := ReadFromTTML(bytes.NewReader(vrenderTTML(doc, items)))
		d := vdigest(s, err)
		if err == nil {
			for _, id := range []string{"s0", "s1", "s2"} {
				if st := s.Styles[id]; st != nil && st.Style != nil {
					d += " " + id + "<-" + st.Style.ID
				}
			}
			d += " lang=" + s.Metadata.Language + " title=" + s.Metadata.Title
		}
		vobserve(fmt.Sprintf("ttml model %d", k), d)
	}
}
