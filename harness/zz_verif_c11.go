package astisub

import "time"

type vc11Cue struct {
	p      *Item
	st, en int64
	text   string // text class
}

func vc11Lines(class int) ([]Line, string) {
	switch class {
	case 0:
		return []Line{{Items: []LineItem{{Text: "a"}}}}, "a"
	case 1:
		return []Line{{Items: []LineItem{{Text: "b"}}}}, "b"
	case 2: // two lines, the first one being the text of class 0
		return []Line{{Items: []LineItem{{Text: "a"}}}, {Items: []LineItem{{Text: "b"}}}}, "a\nb"
	default: // same text as class 0, spread over two runs
		return []Line{{Items: []LineItem{{Text: "a"}, {Text: ""}}}}, "a"
	}
}

// C11 Unfragment: merge law.  BV64.  Any order, overlaps, duplicates.
func VH_C11_Unfragment() {
	n := 1 + choose(vbound("cues", 3, 4))
	nclass := vbound("texts", 3, 4)
	s := NewSubtitles()
	var in []vc11Cue
	for i := 0; i < n; i++ {
		st := nondetInt64(0, 1<<42)
		en := nondetInt64(0, 1<<42)
		vassume(st <= en)
		lines, text := vc11Lines(choose(nclass))
		it := &Item{StartAt: time.Duration(st), EndAt: time.Duration(en), Lines: lines, Index: i}
		s.Items = append(s.Items, it)
		in = append(in, vc11Cue{it, st, en, text})
	}
	t := nondetInt64(0, 1<<42) // a fresh instant
	vreach("pre")
	s.Unfragment()
	out := s.Items
	for k := 1; k < len(out); k++ {
		vassert(out[k-1].StartAt <= out[k].StartAt, "C11 output ordered by start")
	}
	for i := 0; i < len(out); i++ {
		vassert(out[i].StartAt <= out[i].EndAt, "C11 cues stay well-formed")
		for j := i + 1; j < len(out); j++ {
			if vtextOf(out[i]) == vtextOf(out[j]) {
				vassert(out[i].EndAt < out[j].StartAt, "C11 no two same-text cues touch or overlap afterwards")
			}
		}
	}
	// same texts on screen at every instant
	for _, text := range []string{"a", "b", "a\nb"} {
		before, after := false, false
		for _, c := range in {
			if c.text == text {
				before = vor(before, vand(c.st <= t, t < c.en))
			}
		}
		for _, o := range out {
			if vtextOf(o) == text {
				after = vor(after, vand(int64(o.StartAt) <= t, t < int64(o.EndAt)))
			}
		}
		vassert(before == after, "C11 same texts on screen at every instant")
	}
	// cues without a touching same-text partner are untouched
	for i, c := range in {
		isolated := true
		for j, d := range in {
			if i != j && d.text == c.text {
				isolated = vand(isolated, vor(c.en < d.st, d.en < c.st))
			}
		}
		found := false
		for _, o := range out {
			if o == c.p {
				found = true
			}
		}
		if found {
			vassert(vimplies(isolated, vand(int64(c.p.StartAt) == c.st, int64(c.p.EndAt) == c.en)), "C11 isolated cue keeps its times")
		} else {
			vassert(vnot(isolated), "C11 isolated cue is kept")
		}
	}
	vassert(len(out) <= n && len(out) >= 1, "C11 count within bounds")
	vreach("end")
}

// C11 inverse law: Unfragment(Fragment(L, f)) restores L when L is start-ordered and free of touching same-text cues.
func VH_C11_Inverse() {
	n := 1 + choose(vbound("cues", 2, 3))
	K := vbound("windows", 3, 3)
	s := NewSubtitles()
	var in []vc11Cue
	var pst int64
	for i := 0; i < n; i++ {
		st := nondetInt64(0, 1<<42)
		en := nondetInt64(0, 1<<42)
		vassume(st < en)
		if i > 0 {
			vassume(pst <= st)
		}
		pst = st
		lines, text := vc11Lines(choose(2))
		it := &Item{StartAt: time.Duration(st), EndAt: time.Duration(en), Lines: lines, Index: i}
		s.Items = append(s.Items, it)
		in = append(in, vc11Cue{it, st, en, text})
	}
	for i := range in {
		for j := i + 1; j < len(in); j++ {
			if in[i].text == in[j].text {
				vassume(vor(in[i].en < in[j].st, in[j].en < in[i].st))
			}
		}
	}
	f := nondetInt64(1, 1<<40)
	lim := int64(0)
	for k := 0; k < K; k++ {
		lim += f
	}
	for _, c := range in {
		vassume(c.en <= lim)
	}
	vreach("pre")
	s.Fragment(time.Duration(f))
	s.Unfragment()
	out := s.Items
	vassert(len(out) == n, "C11 inverse: same number of cues")
	for k := 1; k < len(out); k++ {
		vassert(out[k-1].StartAt <= out[k].StartAt, "C11 inverse: ordered by start")
	}
	used := make([]bool, len(out))
	for _, c := range in {
		matched := false
		for j, o := range out {
			if used[j] || vtextOf(o) != c.text {
				continue
			}
			if int64(o.StartAt) == c.st && int64(o.EndAt) == c.en {
				used[j] = true
				matched = true
				break
			}
		}
		vassert(matched, "C11 inverse: every original cue restored (times and text)")
	}
	vreach("end")
}

// vtextOf: the text of a cue, computed by the harness (runs concatenated, lines separated by a newline).
func vtextOf(it *Item) string {
	t := ""
	for i, l := range it.Lines {
		if i > 0 {
			t += "\n"
		}
		for _, li := range l.Items {
			t += li.Text
		}
	}
	return t
}
