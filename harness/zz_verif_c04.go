package astisub

import (
	"bytes"
	"strconv"
	"strings"
	"time"
)

type vssaCol struct {
	name string
	kind int // 0 string, 1 bool, 2 colour hex, 3 colour decimal, 4 int, 5 float
}

var vc04StylePool = []vssaCol{
	{"Fontname", 0}, {"Bold", 1}, {"PrimaryColour", 2}, {"SecondaryColour", 3}, {"MarginL", 4}, {"Fontsize", 5},
	{"Italic", 1}, {"BackColour", 2}, {"Alignment", 4}, {"Underline", 1}, {"MarginV", 4}, {"Outline", 5}, {"OutlineColour", 3},
}

type vssaVal struct {
	text string
	b    Bool3
	num  int64
	col  [4]int // alpha, blue, green, red
}

type Bool3 struct{ v bool }

func vhexByte(hi, lo byte) int {
	// branch-free value of a lower-case hex digit: '0'..'9' -> c-48, 'a'..'f' -> c-87
	d := func(c byte) int { return int(c) - 48 - int(c)/97*39 }
	return d(hi)*16 + d(lo)
}

// C04 H1: every style attribute is taken from the column its Format line assigns.  INT encoding; values symbolic.
func VH_C04_StyleColumns() {
	vmode("int")
	k := choose(vbound("formats", 12, 60))
	v4plus := k%2 == 1
	ncols := 3 + k%2
	stride := []int{1, 2, 3, 5, 7}[(k/2)%5]
	namePos := (k / 3) % (ncols + 1)
	var cols []vssaCol
	for j := 0; j < ncols; j++ {
		cols = append(cols, vc04StylePool[(k+j*stride)%len(vc04StylePool)])
	}
	// distinct columns only
	for a := range cols {
		for b := a + 1; b < len(cols); b++ {
			vassume(cols[a].name != cols[b].name)
		}
	}
	format := []string{}
	row := []string{}
	vals := make([]vssaVal, ncols)
	for j, c := range cols {
		if j == namePos {
			format = append(format, "Name")
			row = append(row, "S1")
		}
		var v vssaVal
		switch c.kind {
		case 0:
			v.text = []string{"Arial", "Times New Roman"}[j%2]
		case 1:
			v.b.v = nondetBool()
			if v.b.v {
				v.text = "-1"
			} else {
				v.text = "0"
			}
		case 2:
			hx := vsymstr(8, "0123456789abcdef")
			v.text = "&H" + hx
			for q := 0; q < 4; q++ {
				v.col[q] = vhexByte(hx[2*q], hx[2*q+1])
			}
		case 3:
			// one decimal length per profile (all lengths 1..10 are met over the profiles), any value of that length
			lo, hi := int64(0), int64(9)
			for q := 0; q < (k+j)%10; q++ {
				lo, hi = hi+1, hi*10+9
			}
			if hi > 4294967295 {
				hi = 4294967295
			}
			n := nondetInt64(lo, hi)
			v.text = strconv.FormatInt(n, 10)
			v.col = [4]int{int(n / 16777216), int(n / 65536 % 256), int(n / 256 % 256), int(n % 256)}
		case 4:
			rng := [][2]int64{{0, 9}, {10, 99}, {100, 999}}[(k+j)%3]
			v.num = nondetInt64(rng[0], rng[1])
			v.text = strconv.FormatInt(v.num, 10)
		case 5:
			rng := [][2]int64{{0, 9}, {10, 99}}[(k+j)%2]
			v.num = nondetInt64(rng[0], rng[1])
			v.text = strconv.FormatInt(v.num, 10)
		}
		vals[j] = v
		format = append(format, c.name)
		row = append(row, v.text)
	}
	if namePos == ncols {
		format = append(format, "Name")
		row = append(row, "S1")
	}
	sec := "[V4 Styles]"
	if v4plus {
		sec = "[V4+ Styles]"
	}
	doc := "[Script Info]\nTitle: t\n; a comment\n\n" + sec + "\nFormat: " + strings.Join(format, ", ") + "\nStyle: " + strings.Join(row, ",") + "\n\n[Unknown Section]\njunk: 1\n\n[Events]\nFormat: Start, End, Style, Text\nComment: 0:00:00.00,0:00:01.00,S1,ignored\nDialogue: 0:00:01.00,0:00:02.00,*S1,hi\n"
	vreach("rendered")
	s, err := ReadFromSSA(bytes.NewReader([]byte(doc)))
	vassert(err == nil, "C04 read: well-formed document accepted")
	if err != nil {
		return
	}
	st := s.Styles["S1"]
	vassert(st != nil && st.InlineStyle != nil, "C04 read: style defined under its Name column")
	if st == nil || st.InlineStyle == nil {
		return
	}
	sa := st.InlineStyle
	colEq := func(c *Color, w [4]int) bool {
		if c == nil {
			return false
		}
		return vand(vand(int(c.Alpha) == w[0], int(c.Blue) == w[1]), vand(int(c.Green) == w[2], int(c.Red) == w[3]))
	}
	for j, c := range cols {
		v := vals[j]
		switch c.name {
		case "Fontname":
			vassert(sa.SSAFontName == v.text, "C04 read: Fontname from its column")
		case "Bold":
			vassert(sa.SSABold != nil && *sa.SSABold == v.b.v, "C04 read: Bold from its column")
		case "Italic":
			vassert(sa.SSAItalic != nil && *sa.SSAItalic == v.b.v, "C04 read: Italic from its column")
		case "Underline":
			vassert(sa.SSAUnderline != nil && *sa.SSAUnderline == v.b.v, "C04 read: Underline from its column")
		case "PrimaryColour":
			vassert(colEq(sa.SSAPrimaryColour, v.col), "C04 read: PrimaryColour (hex) from its column")
		case "BackColour":
			vassert(colEq(sa.SSABackColour, v.col), "C04 read: BackColour (hex) from its column")
		case "SecondaryColour":
			vassert(colEq(sa.SSASecondaryColour, v.col), "C04 read: SecondaryColour (decimal) from its column")
		case "OutlineColour":
			vassert(colEq(sa.SSAOutlineColour, v.col), "C04 read: OutlineColour (decimal) from its column")
		case "MarginL":
			vassert(sa.SSAMarginLeft != nil && int64(*sa.SSAMarginLeft) == v.num, "C04 read: MarginL from its column")
		case "MarginV":
			vassert(sa.SSAMarginVertical != nil && int64(*sa.SSAMarginVertical) == v.num, "C04 read: MarginV from its column")
		case "Alignment":
			vassert(sa.SSAAlignment != nil && int64(*sa.SSAAlignment) == v.num, "C04 read: Alignment from its column")
		case "Fontsize":
			vassert(sa.SSAFontSize != nil && *sa.SSAFontSize == float64(v.num), "C04 read: Fontsize from its column")
		case "Outline":
			vassert(sa.SSAOutline != nil && *sa.SSAOutline == float64(v.num), "C04 read: Outline from its column")
		}
	}
	// attributes whose column is absent stay unset
	has := func(n string) bool {
		for _, c := range cols {
			if c.name == n {
				return true
			}
		}
		return false
	}
	if !has("Bold") {
		vassert(sa.SSABold == nil, "C04 read: absent Bold column leaves the attribute unset")
	}
	if !has("PrimaryColour") {
		vassert(sa.SSAPrimaryColour == nil, "C04 read: absent PrimaryColour column leaves the attribute unset")
	}
	if !has("MarginL") {
		vassert(sa.SSAMarginLeft == nil, "C04 read: absent MarginL column leaves the attribute unset")
	}
	// the events: comment ignored, '*'-prefixed style reference resolved, unknown section ignored
	vassert(len(s.Items) == 1 && s.Items[0].Style == st, "C04 read: only Dialogue events, '*'-prefixed style reference resolved")
	vassert(s.Metadata != nil && s.Metadata.Title == "t" && len(s.Metadata.Comments) == 1 && s.Metadata.Comments[0] == "a comment", "C04 read: script info and comments")
	vreach("end")
}

var vc04EventPool = []string{"Marked", "Start", "End", "Style", "Name", "MarginL", "MarginR", "MarginV", "Effect", "Layer"}

// C04 H2: Dialogue events: every column from its Format position, Text last (commas preserved), lines and runs.
func VH_C04_EventColumns() {
	vmode("int")
	k := choose(vbound("formats", 10, 40))
	stride := []int{1, 3, 7, 9}[k%4]
	nc := 4 + k%3
	var cols []string
	hasStart, hasEnd := false, false
	for j := 0; j < nc; j++ {
		c := vc04EventPool[(k+j*stride)%len(vc04EventPool)]
		cols = append(cols, c)
		hasStart = hasStart || c == "Start"
		hasEnd = hasEnd || c == "End"
	}
	for a := range cols {
		for b := a + 1; b < len(cols); b++ {
			vassume(cols[a] != cols[b])
		}
	}
	if !hasStart {
		cols = append(cols, "Start")
	}
	if !hasEnd {
		cols = append([]string{"End"}, cols...)
	}
	cols = append(cols, "Text")
	// symbolic values
	d := func() byte { return nondetByteIn("0123456789") }
	h1, m1, m2, s1, s2, c1, c2 := d(), nondetByteIn("012345"), d(), nondetByteIn("012345"), d(), d(), d()
	startTxt := string([]byte{h1, ':', m1, m2, ':', s1, s2, '.', c1, c2})
	if k%2 == 1 {
		startTxt = "0" + startTxt // HH:MM:SS.cc
	}
	startNs := (int64(h1-'0')*3600+int64(m1-'0')*600+int64(m2-'0')*60+int64(s1-'0')*10+int64(s2-'0'))*1000000000 + (int64(c1-'0')*10+int64(c2-'0'))*10000000
	endTxt := "1:02:03.45"
	endNs := int64(3723450) * 1000000
	marked := nondetBool()
	// margins: symbolic digits, written bare or in the traditional zero-padded four-digit spelling
	md1, md2, md3 := d(), d(), d()
	margin := int64(md1-'0')*100 + int64(md2-'0')*10 + int64(md3-'0')
	marginTxt := "0" + string([]byte{md1, md2, md3})
	if (k/2)%2 == 0 {
		marginTxt = strconv.FormatInt(margin, 10)
	}
	layer := nondetInt64(0, 9)
	texts := []struct {
		src   string
		lines [][]string // per line: run texts; effects: "{..}" prefix kept in effect
		effs  [][]string
	}{
		{"Hello, world", [][]string{{"Hello, world"}}, [][]string{{""}}},
		{"one\\Ntwo, three", [][]string{{"one"}, {"two, three"}}, [][]string{{""}, {""}}},
		{"{\\i1}it{\\i0} rest\\nnext", [][]string{{"it", " rest"}, {"next"}}, [][]string{{"{\\i1}", "{\\i0}"}, {""}}},
		{"pre{\\b1}bold", [][]string{{"pre", "bold"}}, [][]string{{"", "{\\b1}"}}},
		{"{\\an8}{\\i1}two blocks", [][]string{{"", "two blocks"}}, [][]string{{"{\\an8}", "{\\i1}"}}},
		{"a{\\b1}{\\i1}b{\\b0}", [][]string{{"a", "", "b", ""}}, [][]string{{"", "{\\b1}", "{\\i1}", "{\\b0}"}}},
	}
	tx := texts[k%len(texts)]
	var row []string
	for _, c := range cols {
		switch c {
		case "Marked":
			if marked {
				row = append(row, "Marked=1")
			} else {
				row = append(row, "Marked=0")
			}
		case "Start":
			row = append(row, startTxt)
		case "End":
			row = append(row, endTxt)
		case "Style":
			row = append(row, []string{"S1", "*S1", "*Default"}[k%3])
		case "Name":
			row = append(row, "Bob")
		case "MarginL", "MarginR", "MarginV":
			row = append(row, marginTxt)
		case "Effect":
			row = append(row, "Karaoke")
		case "Layer":
			row = append(row, strconv.FormatInt(layer, 10))
		case "Text":
			row = append(row, tx.src)
		}
	}
	doc := "\xef\xbb\xbf[Script Info]\nScriptType: v4.00\n\n[V4 Styles]\nFormat: Name, Fontname\nStyle: S1,Arial\nStyle: Default,Arial\n\n[Events]\nthis line is junk\nFormat: " + strings.Join(cols, ", ") + "\nPicture: " + strings.Join(row, ",") + "\nDialogue: " + strings.Join(row, ",") + "\n"
	vreach("rendered")
	s, err := ReadFromSSA(bytes.NewReader([]byte(doc)))
	vassert(err == nil, "C04 events: well-formed document accepted")
	if err != nil {
		return
	}
	vassert(len(s.Items) == 1, "C04 events: exactly the Dialogue events")
	if len(s.Items) != 1 {
		return
	}
	it := s.Items[0]
	vassert(int64(it.StartAt) == startNs, "C04 events: start to the centisecond")
	vassert(int64(it.EndAt) == endNs, "C04 events: end to the centisecond")
	has := func(n string) bool {
		for _, c := range cols {
			if c == n {
				return true
			}
		}
		return false
	}
	vassert(it.InlineStyle != nil, "C04 events: attributes object")
	if it.InlineStyle != nil {
		sa := it.InlineStyle
		if has("Marked") {
			vassert(sa.SSAMarked != nil && *sa.SSAMarked == marked, "C04 events: marked flag")
		}
		if has("Layer") {
			vassert(sa.SSALayer != nil && int64(*sa.SSALayer) == layer, "C04 events: layer")
		}
		if has("MarginL") {
			vassert(sa.SSAMarginLeft != nil && int64(*sa.SSAMarginLeft) == margin, "C04 events: left margin")
		}
		if has("MarginR") {
			vassert(sa.SSAMarginRight != nil && int64(*sa.SSAMarginRight) == margin, "C04 events: right margin")
		}
		if has("MarginV") {
			vassert(sa.SSAMarginVertical != nil && int64(*sa.SSAMarginVertical) == margin, "C04 events: vertical margin")
		}
		if has("Effect") {
			vassert(sa.SSAEffect == "Karaoke", "C04 events: effect")
		}
	}
	if has("Style") {
		want := []string{"S1", "S1", "Default"}[k%3]
		vassert(it.Style != nil && it.Style.ID == want, "C04 events: style reference, '*'-prefixed names included")
	}
	vassert(len(it.Lines) == len(tx.lines), "C04 events: text split into lines at \\N and \\n")
	for l := range tx.lines {
		if l >= len(it.Lines) {
			break
		}
		if has("Name") {
			vassert(it.Lines[l].VoiceName == "Bob", "C04 events: speaker name")
		}
		vassert(len(it.Lines[l].Items) == len(tx.lines[l]), "C04 events: runs split at override blocks")
		for r := range tx.lines[l] {
			if r >= len(it.Lines[l].Items) {
				break
			}
			li := it.Lines[l].Items[r]
			vassert(li.Text == tx.lines[l][r], "C04 events: run text, commas preserved")
			eff := ""
			if li.InlineStyle != nil {
				eff = li.InlineStyle.SSAEffect
			}
			vassert(eff == tx.effs[l][r], "C04 events: override block of the run")
		}
	}
	vreach("end")
}

// C04 H4: write -> read recovers cues, style attributes (true booleans stay true) and script info; the document
// read back and written again is byte-identical.  INT encoding (timestamp arithmetic).
func VH_C04_WriteReadWrite() {
	vmode("int")
	k := choose(vbound("shapes", 24, 48))
	s := NewSubtitles()
	s.Metadata = &Metadata{Title: "title", SSAScriptType: []string{"v4.00", "v4.00+"}[k%2], SSAOriginalScript: "me", SSAPlayResX: vintp(384), Comments: []string{"c1"}}
	ns := 1 + k%2
	for i := 0; i < ns; i++ {
		sa := &StyleAttributes{SSAFontName: "Arial"}
		switch (k + i) % 3 {
		case 0:
			sa.SSABold = vboolp(true)
			sa.SSAPrimaryColour = &Color{Alpha: 1, Blue: 2, Green: 3, Red: 4}
		case 1:
			sa.SSAItalic = vboolp(false)
			sa.SSAMarginLeft = vintp(10)
			sa.SSAFontSize = vf64p(12)
		case 2:
			sa.SSAUnderline = vboolp(true)
			sa.SSAAlignment = vintp(2)
			sa.SSABold = vboolp(false)
		}
		id := "S" + string(rune('1'+i))
		s.Styles[id] = &Style{ID: id, InlineStyle: sa}
	}
	n := 1 + (k/2)%2
	type cueM struct {
		st, en int64
		text   string
	}
	var model []cueM
	for c := 0; c < n; c++ {
		st := nondetInt64(0, 10*3600*1000000000-1)
		en := nondetInt64(0, 10*3600*1000000000-1)
		vtimeClass(st, (k*7+c)%24&^1) // hours below 10: SSA writes them as one digit
		vtimeClass(en, (k*11+5*c)%24&^1)
		text := []string{"Hello, world", "plain"}[(k+c)%2]
		// event margins: one equal to the margin of the cue's style (when the style sets one), one different, one absent;
		// an effect on the event
		it := &Item{StartAt: time.Duration(st), EndAt: time.Duration(en), Style: s.Styles["S1"], InlineStyle: &StyleAttributes{SSAMarked: vboolp(c == 0), SSALayer: vintp(c),
			SSAMarginLeft: vintp(10), SSAMarginVertical: vintp(7 + c), SSAEffect: "Karaoke"},
			Lines: []Line{{VoiceName: "Bob", Items: []LineItem{{Text: text}}}}}
		if (k/4)%3 == 2 {
			// a second line made of two runs, the second one with an override block
			it.Lines = append(it.Lines, Line{VoiceName: "Bob", Items: []LineItem{{Text: "two"}, {Text: "runs", InlineStyle: &StyleAttributes{SSAEffect: "{\\i1}"}}}})
		}
		s.Items = append(s.Items, it)
		model = append(model, cueM{st, en, text})
	}
	var b1 bytes.Buffer
	vassert(s.WriteToSSA(&b1) == nil, "C04 write succeeds")
	vreach("written")
	r, err := ReadFromSSA(bytes.NewReader(b1.Bytes()))
	vassert(err == nil && len(r.Items) == n, "C04 write->read: same number of cues")
	if err != nil || len(r.Items) != n {
		return
	}
	vassert(r.Metadata != nil && r.Metadata.Title == "title" && r.Metadata.SSAOriginalScript == "me" && r.Metadata.SSAPlayResX != nil && *r.Metadata.SSAPlayResX == 384, "C04 write->read: script info")
	for id, st := range s.Styles {
		rs := r.Styles[id]
		vassert(rs != nil && rs.InlineStyle != nil, "C04 write->read: style present")
		if rs == nil || rs.InlineStyle == nil {
			continue
		}
		a, b := st.InlineStyle, rs.InlineStyle
		if a.SSABold != nil {
			vassert(b.SSABold != nil && *b.SSABold == *a.SSABold, "C04 write->read: Bold survives (true booleans stay true)")
		}
		if a.SSAItalic != nil {
			vassert(b.SSAItalic != nil && *b.SSAItalic == *a.SSAItalic, "C04 write->read: Italic survives")
		}
		if a.SSAUnderline != nil {
			vassert(b.SSAUnderline != nil && *b.SSAUnderline == *a.SSAUnderline, "C04 write->read: Underline survives (true booleans stay true)")
		}
		if a.SSAPrimaryColour != nil {
			vassert(b.SSAPrimaryColour != nil && *b.SSAPrimaryColour == *a.SSAPrimaryColour, "C04 write->read: colour survives")
		}
		if a.SSAMarginLeft != nil {
			vassert(b.SSAMarginLeft != nil && *b.SSAMarginLeft == *a.SSAMarginLeft, "C04 write->read: margin survives")
		}
		if a.SSAFontSize != nil {
			vassert(b.SSAFontSize != nil && *b.SSAFontSize == *a.SSAFontSize, "C04 write->read: font size survives")
		}
		vassert(b.SSAFontName == a.SSAFontName, "C04 write->read: font name survives")
	}
	for c, m := range model {
		it := r.Items[c]
		vassert(int64(it.StartAt) == m.st/10000000*10000000, "C04 write->read: start truncated to cs")
		vassert(int64(it.EndAt) == m.en/10000000*10000000, "C04 write->read: end truncated to cs")
		// the second write below is driven from the values just shown equal
		it.StartAt = time.Duration(m.st / 10000000 * 10000000)
		it.EndAt = time.Duration(m.en / 10000000 * 10000000)
		vassert(len(it.Lines) >= 1 && it.Lines[0].VoiceName == "Bob" && len(it.Lines[0].Items) == 1 && it.Lines[0].Items[0].Text == m.text, "C04 write->read: text and speaker")
		vassert(len(it.Lines) == len(s.Items[c].Lines), "C04 write->read: number of lines")
		vassert(it.Style != nil && it.Style.ID == "S1", "C04 write->read: style reference")
		ia := it.InlineStyle
		vassert(ia != nil && ia.SSAMarginLeft != nil && *ia.SSAMarginLeft == 10 && ia.SSAMarginVertical != nil && *ia.SSAMarginVertical == 7+c, "C04 write->read: event margins survive")
		vassert(ia != nil && ia.SSAEffect == "Karaoke", "C04 write->read: event effect survives")
	}
	var b2 bytes.Buffer
	vassert(r.WriteToSSA(&b2) == nil, "C04 second write succeeds")
	vassert(vdeepequal(b1.Bytes(), b2.Bytes()), "C04 read-then-write yields the same bytes")
	vreach("end")
}

// C04 H4: the timestamp the SSA writer emits, float64 steps encoded exactly (IEEE theory, cvc5): for every nanosecond
// offset within a second the centisecond field is the truncated sub-second part (the relaxed-real encoding of
// VH_C04_WriteReadWrite cannot tell a one-ulp slip from the right answer).
func VH_C04_TimestampExact() {
	vsolver("cvc5")
	i := nondetInt64(0, 999999999)
	s := formatDurationSSA(time.Duration(i))
	vassert(len(s) == 11, "C04 exact: HH:MM:SS.cc")
	if len(s) != 11 {
		return
	}
	vassert(veqstr(s[:9], "00:00:00."), "C04 exact: whole-second fields")
	cs := i / 10000000
	vassert(s[9] == byte('0'+cs/10) && s[10] == byte('0'+cs%10), "C04 exact: centiseconds are the truncated sub-second part")
	vreach("end")
}
