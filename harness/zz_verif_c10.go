package astisub

import "time"

type vc10Cue struct {
	p      *Item
	st, en int64
	text   string
	style  *Style
	region *Region
	inline *StyleAttributes
}

func vc10Build(n int, overlapFree bool) (*Subtitles, []vc10Cue) {
	s := NewSubtitles()
	var in []vc10Cue
	var pst, pen int64
	for i := 0; i < n; i++ {
		st := nondetInt64(0, 1<<42)
		en := nondetInt64(0, 1<<42)
		vassume(st <= en)
		if i > 0 {
			vassume(pst <= st) // start-ordered
			if overlapFree {
				vassume(pen <= st)
			}
		}
		pst, pen = st, en
		text := []string{"a", "b"}[choose(2)]
		sty := &Style{ID: "s"}
		reg := &Region{ID: "r"}
		inl := &StyleAttributes{WebVTTAlign: "left"}
		it := &Item{StartAt: time.Duration(st), EndAt: time.Duration(en), Lines: []Line{{VoiceName: "v", Items: []LineItem{{Text: text}}}}, Style: sty, Region: reg, InlineStyle: inl,
			Comments: []string{"c"}, Index: i + 1}
		s.Items = append(s.Items, it)
		in = append(in, vc10Cue{it, st, en, text, sty, reg, inl})
	}
	return s, in
}

// vc10Check: the three clauses of C10 for windows 1..K.
func vc10Check(s *Subtitles, in []vc10Cue, f int64, K int, tag string) {
	// (ii) ordered by start
	for k := 1; k < len(s.Items); k++ {
		vassert(s.Items[k-1].StartAt <= s.Items[k].StartAt, tag+": output ordered by start")
	}
	// (i) no output cue strictly contains a multiple of f
	for _, it := range s.Items {
		m := int64(0)
		for k := 1; k <= K; k++ {
			m += f
			vassert(vnot(vand(int64(it.StartAt) < m, m < int64(it.EndAt))), tag+": no cue strictly contains a multiple of f")
		}
	}
	// (iii) per source cue (identified by its style pointer) the output pieces are exactly the cutting of the original
	total := 0
	for _, c := range in {
		var cuts []int64
		m := int64(0)
		for k := 1; k <= K; k++ {
			m += f
			if c.st < m && m < c.en {
				cuts = append(cuts, m)
			}
		}
		bounds := append(append([]int64{c.st}, cuts...), c.en)
		j := 0
		for _, it := range s.Items {
			if it.Style != c.style {
				continue
			}
			vassert(j+1 < len(bounds), tag+": no extra piece")
			vassert(int64(it.StartAt) == bounds[j] && int64(it.EndAt) == bounds[j+1], tag+": pieces are the consecutive cuts of the original")
			vassert(it.Region == c.region && len(it.Lines) == 1 && len(it.Lines[0].Items) == 1 && it.Lines[0].Items[0].Text == c.text, tag+": piece carries text, style and region")
			vassert(it.InlineStyle == c.inline && it.Lines[0].VoiceName == "v" && len(it.Comments) == 1 && it.Index == c.p.Index, tag+": piece carries the cue's inline style, voice, comments and index")
			if len(cuts) == 0 {
				vassert(it == c.p, tag+": uncut cue left as it was")
			}
			j++
			total++
		}
		vassert(j == len(bounds)-1, tag+": every piece present")
	}
	vassert(total == len(s.Items), tag+": nothing else in the list")
}

// C10 Fragment on start-ordered lists in which cues may overlap, nest or coincide.  BV64.
func VH_C10_Fragment() {
	n := 1 + choose(vbound("cues", 2, 3))
	K := vbound("windows", 3, 3)
	s, in := vc10Build(n, false)
	f := nondetInt64(1, 1<<40)
	lim := int64(0)
	for k := 0; k < K; k++ {
		lim += f
	}
	for _, c := range in {
		vassume(c.en <= lim)
	}
	vreach("pre")
	s.Fragment(time.Duration(f))
	vc10Check(s, in, f, K, "C10 Fragment")
	vreach("end")
}

// C10 Fragment on overlap-free lists, deeper bound.
func VH_C10_FragmentDisjoint() {
	n := 1 + choose(vbound("cues", 3, 4))
	K := vbound("windows", 3, 4)
	s, in := vc10Build(n, true)
	f := nondetInt64(1, 1<<40)
	lim := int64(0)
	for k := 0; k < K; k++ {
		lim += f
	}
	for _, c := range in {
		vassume(c.en <= lim)
	}
	vreach("pre")
	s.Fragment(time.Duration(f))
	vc10Check(s, in, f, K, "C10 Fragment(disjoint)")
	vreach("end")
}

// C10 on a grid of concrete values (the solver only enumerates the grid here; every value is then computed exactly as
// the native code computes it): periods that are not binary fractions of a second, one cue starting exactly on the
// k-th multiple, k = 0..40 / 0..100, of one and a half / three and a half periods. Arithmetic that leaves the integers
// (a quotient of seconds in float64, say) goes wrong on such values while every symbolic query about it ends unknown.
func VH_C10_FragmentGrid() {
	f := []int64{100000000, 700000000, 2400000000, 33366667}[choose(4)]
	k := vconcrete(nondetInt64(0, int64(vbound("multiples", 40, 100))))
	half := choose(2)
	st := k * f
	en := st + f + f/2 + int64(half)*2*f
	s := NewSubtitles()
	sty, reg, inl := &Style{ID: "s"}, &Region{ID: "r"}, &StyleAttributes{WebVTTAlign: "left"}
	it := &Item{StartAt: time.Duration(st), EndAt: time.Duration(en), Lines: []Line{{VoiceName: "v", Items: []LineItem{{Text: "a"}}}}, Style: sty, Region: reg, InlineStyle: inl, Comments: []string{"c"}, Index: 1}
	s.Items = append(s.Items, it)
	in := []vc10Cue{{it, st, en, "a", sty, reg, inl}}
	vreach("pre")
	s.Fragment(time.Duration(f))
	// windows: the cue ends below (k+4)*f; check the multiples around it
	for _, p := range s.Items {
		vassert(p.StartAt < p.EndAt, "C10 grid: no empty piece")
		for m := k; m <= k+4; m++ {
			vassert(!(int64(p.StartAt) < m*f && m*f < int64(p.EndAt)), "C10 grid: no piece strictly contains a multiple of f")
		}
	}
	want := 2 + 2*half
	vassert(len(s.Items) == want, "C10 grid: pieces are exactly the consecutive cuts of the original")
	for i, p := range s.Items {
		ws, we := st+int64(i)*f, st+int64(i+1)*f
		if i == want-1 {
			we = en
		}
		vassert(int64(p.StartAt) == ws && int64(p.EndAt) == we, "C10 grid: pieces are exactly the consecutive cuts of the original")
	}
	_ = in
	vreach("end")
}
