package astisub

import (
	"bytes"
	"time"
)

const vc08Alphabet = " :,.=-0a>&\xc3\xff"

// C08 readers: every line-based reader returns a cue list or an error on documents built from line templates with
// symbolic holes (a panic or a run-away loop is a violation).  BV8.
func VH_C08_ReadTemplates() {
	format := choose(3)
	// one template line after the valid prefix; holes of 0..2 bytes (thorough: the first hole 0..3). Two template lines were
	// tried: tens of millions of paths, not finished in 40 min, so they are outside the bound.
	// (thorough with every hole up to 3 bytes: 445 000 paths explored in 40 min and not finished; the first hole of the
	// line goes up to 3 bytes, the others up to 2.)
	nh, nl := vbound("first hole bytes", 2, 3), 1
	nholes := 0
	hole := func() string {
		nholes++
		if nholes > 1 {
			return vsymstr(choose(3), vc08Alphabet)
		}
		return vsymstr(choose(nh+1), vc08Alphabet)
	}
	var tmpl [][]string
	switch format {
	case 0: // srt
		tmpl = [][]string{{"", "-->", ""}, {"1"}, {""}, {"00:00:01,000 --> 00:00:02,000", ""}, {"<i>", ""}, {"00:00:01,000 -->", "-->", ""}}
	case 1: // webvtt
		tmpl = [][]string{{"", "-->", ""}, {"Region: ", ""}, {"STYLE"}, {"NOTE ", ""}, {"X-TIMESTAMP-MAP=", ""}, {"00:01.000 --> 00:02.000 ", ""}, {""}, {"00:00:01.000 -->", "-->", ""}}
	default: // ssa
		tmpl = [][]string{{"[Events]"}, {"Format:", ""}, {"Dialogue:", ""}, {"[V4 Styles]"}, {"Style:", ""}, {"[Script Info]"}, {"PlayResX:", ""}, {""}}
	}
	doc := ""
	switch format {
	case 0:
		doc = "1\n00:00:01,000 --> 00:00:02,000\nhi\n\n"
	case 1:
		doc = "WEBVTT\n\n"
	default:
		doc = "[Script Info]\nTitle: t\n\n[V4 Styles]\nFormat: Name, Bold\n\n[Events]\nFormat: Start, End, Text\n"
	}
	for l := 0; l < nl; l++ {
		t := tmpl[choose(len(tmpl))]
		for i, part := range t {
			if i > 0 || part == "" {
				doc += hole()
			}
			doc += part
		}
		doc += "\n"
	}
	vreach("pre")
	switch format {
	case 0:
		ReadFromSRT(bytes.NewReader([]byte(doc)))
	case 1:
		ReadFromWebVTT(bytes.NewReader([]byte(doc)))
	default:
		ReadFromSSA(bytes.NewReader([]byte(doc)))
	}
	vreach("end")
}

// C08 readers on fully symbolic short documents.
func VH_C08_ReadArbitrary() {
	format := choose(3)
	n := choose(vbound("bytes+1", 4, 6))
	doc := vsymstr(n, "\n\r -:>0[]D,"+"\xef")
	vreach("pre")
	switch format {
	case 0:
		ReadFromSRT(bytes.NewReader([]byte(doc)))
	case 1:
		ReadFromWebVTT(bytes.NewReader([]byte("WEBVTT\n" + doc)))
	default:
		ReadFromSSA(bytes.NewReader([]byte("[Events]\n" + doc)))
	}
	vreach("end")
}

// C08 STL reader: a GSI block with symbolic disk-format code, code table, dates and numeric/timecode fields, one TTI
// block with symbolic header and text bytes; truncated inputs of every length class.
func VH_C08_ReadSTL() {
	s := NewSubtitles()
	s.Items = append(s.Items, &Item{StartAt: time.Second, EndAt: 2 * time.Second, Lines: []Line{{Items: []LineItem{{Text: "x"}}}}})
	s.Metadata = &Metadata{Framerate: 25, STLDisplayStandardCode: []string{"0", "1"}[choose(2)]}
	var buf bytes.Buffer
	vassert(s.WriteToSTL(&buf) == nil, "C08 stl fixture")
	d := buf.Bytes()
	which := choose(6)
	switch which {
	case 0: // disk format code
		copy(d[3:11], "STL"+vsymstr(2, "235 ")+".01")
	case 1: // character code table number
		d[12], d[13] = nondetByteIn("03 "), nondetByteIn("0145 ")
	case 2: // creation / revision dates
		copy(d[224:230], vsymstr(3, "019 ")+"101")
	case 3: // revision number, total number of TTI blocks, subtitles, groups
		copy(d[236:238], vsymstr(2, "09 x-"))
		copy(d[238:243], vsymstr(2, "09 x-")+"   ")
	case 4: // max chars / rows, timecodes
		copy(d[251:253], vsymstr(2, "09 x-"))
		copy(d[253:255], vsymstr(2, "09 x-"))
		copy(d[256:264], vsymstr(3, "09 x:")+"     ")
	case 5: // TTI header and text
		d[1024+3] = nondetByteIn("\xff\xfe")      // extension block number
		d[1024+14] = nondetByteIn("\x00\x03\x07") // justification code
		d[1024+13] = nondetByteIn("\x00\x17\xff") // vertical position
		for i := 0; i < vbound("textbytes", 2, 3); i++ {
			d[1024+16+i] = nondetByteIn("a\x80\x84\x8a\x8f\x0b\x0a\x01\xc2\xe0")
		}
	}
	cut := len(d)
	if which == 0 {
		cut = []int{len(d), 0, 1, 1023, 1024, 1025, 1024 + 127}[choose(7)]
	}
	vreach("pre")
	ReadFromSTL(bytes.NewReader(d[:cut]), STLOptions{IgnoreTimecodeStartOfProgramme: choose(2) == 1})
	vreach("end")
}

// C08 writers: a cue list assembled from the public types with every optional part independently absent.
func VH_C08_WriteOptionalParts() {
	vmode("int")
	format := choose(5)
	s := &Subtitles{}
	mask := choose(vbound("nilmasks", 64, 64))
	if mask&1 != 0 {
		s.Metadata = &Metadata{}
		if mask&32 != 0 {
			s.Metadata.Framerate = []int{-1, 0, 30}[(mask/2)%3]
			s.Metadata.SSAScriptType = "v4.00+"
		}
	}
	if mask&2 != 0 {
		s.Styles = map[string]*Style{"s": {ID: "s"}}
		s.Regions = map[string]*Region{"r": {ID: "r"}}
		if mask&4 != 0 {
			s.Styles["s"].InlineStyle = &StyleAttributes{}
			s.Regions["r"].InlineStyle = &StyleAttributes{}
			s.Regions["r"].Style = s.Styles["s"]
			s.Styles["s"].Style = &Style{ID: "p"}
		}
	}
	text := []string{"", "a", "é", "́a", "\x01b", "\U0001F600", " ", "line\nbreak"}[choose(8)]
	nc := choose(vbound("cues+1", 2, 3))
	for c := 0; c < nc; c++ {
		it := &Item{StartAt: 3 * time.Second, EndAt: 20 * time.Second}
		if format != 3 {
			it.StartAt = time.Duration(nondetInt64(0, 9)) * time.Second // symbolic boundary (STL timecode arithmetic: C16)
		}
		if mask&8 != 0 {
			it.InlineStyle = &StyleAttributes{}
			if s.Styles != nil {
				it.Style = s.Styles["s"]
				it.Region = s.Regions["r"]
			}
		}
		if c == 0 {
			if mask&16 != 0 {
				it.Lines = []Line{{Items: []LineItem{{Text: text}, {Text: text, InlineStyle: &StyleAttributes{}}}}, {}}
			} else {
				it.Lines = []Line{{VoiceName: "v", Items: []LineItem{{Text: text}}}}
			}
		}
		s.Items = append(s.Items, it)
	}
	var buf bytes.Buffer
	vreach("pre")
	switch format {
	case 0:
		s.WriteToSRT(&buf)
	case 1:
		s.WriteToWebVTT(&buf)
	case 2:
		s.WriteToSSA(&buf)
	case 3:
		s.WriteToSTL(&buf)
	case 4:
		s.WriteToTTML(&buf)
	}
	vreach("end")
}

// C08 H5: writers on lists whose styles and regions set different subsets of attributes (a column, rule or XML
// attribute present for one style is absent for the other): every writer returns normally.
func VH_C08_WriteHeterogeneousStyles() {
	vmode("int")
	format := choose(5)
	nm := vbound("attribute subsets", 8, 16)
	s := NewSubtitles()
	s.Metadata = &Metadata{SSAScriptType: []string{"v4.00", "v4.00+"}[choose(2)], Framerate: 25}
	attrs := func(m int) *StyleAttributes {
		sa := &StyleAttributes{}
		if m&1 != 0 {
			sa.SSAPrimaryColour = &Color{Red: 255}
			sa.TTMLColor = vstrp("#ff0000")
		}
		if m&2 != 0 {
			sa.SSABold = vboolp(true)
			sa.SSAItalic = vboolp(false)
			sa.TTMLFontStyle = vstrp("italic")
			sa.STLItalics = vboolp(true)
		}
		if m&4 != 0 {
			sa.SSAFontSize = vf64p(12)
			sa.SSAMarginLeft = vintp(3)
			sa.SSAAlignment = vintp(2)
			sa.TTMLFontSize = vstrp("12px")
		}
		if m&8 != 0 {
			sa.SSAFontName = "Arial"
			sa.SSAOutlineColour = &Color{Blue: 1}
			sa.SSABackColour = &Color{Green: 2, Alpha: 3}
			sa.WebVTTStyles = []string{"::cue { color: blue }"}
			sa.WebVTTAlign = "left"
		}
		return sa
	}
	m0, m1 := choose(nm), choose(nm)
	s.Styles["a"] = &Style{ID: "a", InlineStyle: attrs(m0)}
	s.Styles["b"] = &Style{ID: "b", InlineStyle: attrs(m1), Style: s.Styles["a"]}
	s.Regions["r"] = &Region{ID: "r", InlineStyle: attrs(m1), Style: s.Styles["a"]}
	s.Regions["q"] = &Region{ID: "q", InlineStyle: attrs(m0)}
	s.Items = append(s.Items, &Item{StartAt: time.Second, EndAt: 2 * time.Second, Style: s.Styles["b"], Region: s.Regions["r"], InlineStyle: attrs(m0),
		Lines: []Line{{Items: []LineItem{{Text: "x", InlineStyle: attrs(m1), Style: s.Styles["a"]}, {Text: "y"}}}}})
	var buf bytes.Buffer
	vreach("pre")
	switch format {
	case 0:
		s.WriteToSRT(&buf)
	case 1:
		s.WriteToWebVTT(&buf)
	case 2:
		s.WriteToSSA(&buf)
	case 3:
		s.WriteToSTL(&buf)
	case 4:
		s.WriteToTTML(&buf)
	}
	vreach("end")
}

// C08 for the teletext reader: the framing harnesses of C06 (arbitrary PES payloads; data units of every declared
// length with symbolic id, address and framing bytes, from a receiving and a non-receiving buffer) also decide the
// "never panics" clause of C08, so they run under both properties.
func VH_C08_TeletextFraming()   { VH_C06_Framing() }
func VH_C08_TeletextDataUnits() { VH_C06_DataUnits() }
