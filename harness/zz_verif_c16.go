package astisub

import "time"

func vdigit(b byte) bool { return b >= '0' && b <= '9' }

// C16 text timestamp codec (SubRip, WebVTT, TTML clock time: ms; SSA: cs).  INT encoding, 1 ns resolution.
func VH_C16_Text() {
	vmode("int")
	f := choose(4) // srt, vtt, ttml, ssa
	i := nondetInt64(0, 100*3600*1000000000-1)
	d := time.Duration(i)
	var s string
	var unit int64 = 1000000
	sep := byte('.')
	nfrac := 3
	switch f {
	case 0:
		s = formatDurationSRT(d)
		sep = ','
	case 1:
		s = formatDurationWebVTT(d)
	case 2:
		b, err := TTMLOutDuration(d).MarshalText()
		vassert(err == nil, "C16 ttml marshal succeeds")
		s = string(b)
	case 3:
		s = formatDurationSSA(d)
		unit = 10000000
		nfrac = 2
	}
	vreach("formatted")
	// shape: [H]HH:MM:SS<sep>F{nfrac}; SSA writes hours without padding (H:MM:SS.cc is its grammar)
	hd := len(s) - (7 + nfrac)
	if f == 3 {
		vassert(hd >= 1 && hd <= 2, "C16 ssa: one or two hour digits")
	} else {
		vassert(hd == 2, "C16 two hour digits below 100h")
	}
	for k := 0; k < hd; k++ {
		vassert(vdigit(s[k]), "C16 hour digits")
	}
	vassert(s[hd] == ':' && s[hd+3] == ':' && s[hd+6] == sep, "C16 separators")
	vassert(vdigit(s[hd+1]) && vdigit(s[hd+2]) && s[hd+1] <= '5', "C16 two-digit minutes below 60")
	vassert(vdigit(s[hd+4]) && vdigit(s[hd+5]) && s[hd+4] <= '5', "C16 two-digit seconds below 60")
	for k := 0; k < nfrac; k++ {
		vassert(vdigit(s[hd+7+k]), "C16 fraction digits")
	}
	// the same format's reader maps it back to the latest representable instant not after i
	var back time.Duration
	var err error
	switch f {
	case 0:
		back, err = parseDurationSRT(s)
	case 1:
		back, err = parseDurationWebVTT(s)
	case 2:
		var td TTMLInDuration
		err = td.UnmarshalText([]byte(s))
		back = td.duration()
	case 3:
		back, err = parseDurationSSA(s)
	}
	vassert(err == nil, "C16 reader accepts the rendering")
	vassert(int64(back) == i/unit*unit, "C16 reads back as the latest representable instant not after i")
	vreach("parsed")
	// a second write is identical (back has just been shown equal to the truncated instant; the second
	// write is driven from that value)
	back = time.Duration(i / unit * unit)
	var s2 string
	switch f {
	case 0:
		s2 = formatDurationSRT(back)
	case 1:
		s2 = formatDurationWebVTT(back)
	case 2:
		b, _ := TTMLOutDuration(back).MarshalText()
		s2 = string(b)
	case 3:
		s2 = formatDurationSSA(back)
	}
	vassert(veqstr(s2, s), "C16 second write identical")
	vreach("end")
}

// C16 monotonicity: later instants never render as earlier timestamps (through the reader, as instants).
func VH_C16_TextMonotone() {
	vmode("int")
	f := []int{0, 3, 1, 2}[choose(vbound("formats", 2, 4))]
	i := nondetInt64(0, 100*3600*1000000000-1)
	j := nondetInt64(0, 100*3600*1000000000-1)
	vassume(i <= j)
	var bi, bj time.Duration
	var e1, e2 error
	unit := int64(1000000)
	if f == 3 {
		unit = 10000000
	}
	switch f {
	case 0:
		bi, e1 = parseDurationSRT(formatDurationSRT(time.Duration(i)))
		bj, e2 = parseDurationSRT(formatDurationSRT(time.Duration(j)))
	case 1:
		bi, e1 = parseDurationWebVTT(formatDurationWebVTT(time.Duration(i)))
		bj, e2 = parseDurationWebVTT(formatDurationWebVTT(time.Duration(j)))
	case 2:
		b1, _ := TTMLOutDuration(time.Duration(i)).MarshalText()
		b2, _ := TTMLOutDuration(time.Duration(j)).MarshalText()
		var t1, t2 TTMLInDuration
		e1 = t1.UnmarshalText(b1)
		e2 = t2.UnmarshalText(b2)
		bi, bj = t1.duration(), t2.duration()
	case 3:
		bi, e1 = parseDurationSSA(formatDurationSSA(time.Duration(i)))
		bj, e2 = parseDurationSSA(formatDurationSSA(time.Duration(j)))
	}
	vassert(int64(bi) == i/unit*unit, "C16 monotone: first instant reads back truncated")
	vassert(int64(bj) == j/unit*unit, "C16 monotone: second instant reads back truncated")
	vassert(e1 == nil && e2 == nil, "C16 monotone: renderings parse")
	vassert(bi <= bj, "C16 later instants never render earlier")
	vreach("end")
}
