package astisub

import "time"

func vdigit(b byte) bool { return b >= '0' && b <= '9' }

// C16 text timestamp codec (SubRip, WebVTT, TTML clock time: ms; SSA: cs).  INT encoding, 1 ns resolution.
func VH_C16_Text() {
	vmode("int")
	f := choose(4) // srt, vtt, ttml, ssa
	i := nondetInt64(0, 100*3600*1000000000-1)
	d := time.Duration(i)
	var s string
	var unit int64 = 1000000
	sep := byte('.')
	nfrac := 3
	switch f {
	case 0:
		s = formatDurationSRT(d)
		sep = ','
	case 1:
		s = formatDurationWebVTT(d)
	case 2:
		b, err := TTMLOutDuration(d).MarshalText()
		vassert(err == nil, "C16 ttml marshal succeeds")
		s = string(b)
	case 3:
		s = formatDurationSSA(d)
		unit = 10000000
		nfrac = 2
	}
	vreach("formatted")
	// shape: [H]HH:MM:SS<sep>F{nfrac}; SSA writes hours without padding (H:MM:SS.cc is its grammar)
	hd := len(s) - (7 + nfrac)
	if f == 3 {
		vassert(hd >= 1 && hd <= 2, "C16 ssa: one or two hour digits")
	} else {
		vassert(hd == 2, "C16 two hour digits below 100h")
	}
	for k := 0; k < hd; k++ {
		vassert(vdigit(s[k]), "C16 hour digits")
	}
	vassert(s[hd] == ':' && s[hd+3] == ':' && s[hd+6] == sep, "C16 separators")
	vassert(vdigit(s[hd+1]) && vdigit(s[hd+2]) && s[hd+1] <= '5', "C16 two-digit minutes below 60")
	vassert(vdigit(s[hd+4]) && vdigit(s[hd+5]) && s[hd+4] <= '5', "C16 two-digit seconds below 60")
	for k := 0; k < nfrac; k++ {
		vassert(vdigit(s[hd+7+k]), "C16 fraction digits")
	}
	// the same format's reader maps it back to the latest representable instant not after i
	var back time.Duration
	var err error
	switch f {
	case 0:
		back, err = parseDurationSRT(s)
	case 1:
		back, err = parseDurationWebVTT(s)
	case 2:
		var td TTMLInDuration
		err = td.UnmarshalText([]byte(s))
		back = td.duration()
	case 3:
		back, err = parseDurationSSA(s)
	}
	vassert(err == nil, "C16 reader accepts the rendering")
	vassert(int64(back) == i/unit*unit, "C16 reads back as the latest representable instant not after i")
	vreach("parsed")
	// a second write is identical (back has just been shown equal to the truncated instant; the second
	// write is driven from that value)
	back = time.Duration(i / unit * unit)
	var s2 string
	switch f {
	case 0:
		s2 = formatDurationSRT(back)
	case 1:
		s2 = formatDurationWebVTT(back)
	case 2:
		b, _ := TTMLOutDuration(back).MarshalText()
		s2 = string(b)
	case 3:
		s2 = formatDurationSSA(back)
	}
	vassert(veqstr(s2, s), "C16 second write identical")
	vreach("end")
}

// C16 monotonicity: later instants never render as earlier timestamps (through the reader, as instants).
func VH_C16_TextMonotone() {
	vmode("int")
	f := []int{0, 3, 1, 2}[choose(vbound("formats", 2, 4))]
	i := nondetInt64(0, 100*3600*1000000000-1)
	j := nondetInt64(0, 100*3600*1000000000-1)
	vassume(i <= j)
	var bi, bj time.Duration
	var e1, e2 error
	unit := int64(1000000)
	if f == 3 {
		unit = 10000000
	}
	switch f {
	case 0:
		bi, e1 = parseDurationSRT(formatDurationSRT(time.Duration(i)))
		bj, e2 = parseDurationSRT(formatDurationSRT(time.Duration(j)))
	case 1:
		bi, e1 = parseDurationWebVTT(formatDurationWebVTT(time.Duration(i)))
		bj, e2 = parseDurationWebVTT(formatDurationWebVTT(time.Duration(j)))
	case 2:
		b1, _ := TTMLOutDuration(time.Duration(i)).MarshalText()
		b2, _ := TTMLOutDuration(time.Duration(j)).MarshalText()
		var t1, t2 TTMLInDuration
		e1 = t1.UnmarshalText(b1)
		e2 = t2.UnmarshalText(b2)
		bi, bj = t1.duration(), t2.duration()
	case 3:
		bi, e1 = parseDurationSSA(formatDurationSSA(time.Duration(i)))
		bj, e2 = parseDurationSSA(formatDurationSSA(time.Duration(j)))
	}
	vassert(int64(bi) == i/unit*unit, "C16 monotone: first instant reads back truncated")
	vassert(int64(bj) == j/unit*unit, "C16 monotone: second instant reads back truncated")
	vassert(e1 == nil && e2 == nil, "C16 monotone: renderings parse")
	vassert(bi <= bj, "C16 later instants never render earlier")
	vreach("end")
}

// C16 STL timecode bytes (TTI blocks): frame resolution at 25 / 30 fps.  INT encoding + relaxed floats.
func VH_C16_STLBytes() {
	vmode("int")
	fr := []int{25, 30}[choose(2)]
	d := nondetInt64(0, 24*3600*1000000000-1)
	b := formatDurationSTLBytes(time.Duration(d), fr)
	vassert(len(b) == 4, "C16 stl: four timecode bytes")
	h, m, s, f := int64(b[0]), int64(b[1]), int64(b[2]), int64(b[3])
	H, M, S := int64(time.Hour), int64(time.Minute), int64(time.Second)
	vassert(h == d/H, "C16 stl: hours field")
	vassert(vand(m == d%H/M, m < 60), "C16 stl: minutes field below 60")
	vassert(vand(s == d%M/S, s < 60), "C16 stl: seconds field below 60")
	vassert(vand(f == d%S*int64(fr)/S, f < int64(fr)), "C16 stl: frame field is the latest frame not after d, below the frame rate")
	vreach("formatted")
	p := int64(parseDurationSTLBytes(b, fr))
	base := h*H + m*M + s*S
	// exact frame instant is base + f/fr seconds; p must be within one nanosecond of it
	diff := (p-base)*int64(fr) - f*S
	vassert(vand(diff >= -int64(fr), diff <= int64(fr)), "C16 stl: reader maps the timecode to within 1ns of the frame instant")
	vreach("parsed")
	b2 := formatDurationSTLBytes(time.Duration(p), fr)
	vassert(len(b2) == 4, "C16 stl: second write has four bytes")
	if len(b2) == 4 {
		vassert(vand(vand(b2[0] == b[0], b2[1] == b[1]), vand(b2[2] == b[2], b2[3] == b[3])), "C16 stl: second write identical")
	}
	vreach("end")
}

// C16 STL 8-digit timecode strings (GSI block).
func VH_C16_STLString() {
	vmode("int")
	fr := []int{30, 25}[choose(vbound("framerates", 1, 2))]
	d := nondetInt64(0, 24*3600*1000000000-1)
	str := formatDurationSTL(time.Duration(d), fr)
	vassert(len(str) == 8, "C16 stl string: eight digits")
	for k := 0; k < 8; k++ {
		vassert(vdigit(str[k]), "C16 stl string: digits only")
	}
	H, M, S := int64(time.Hour), int64(time.Minute), int64(time.Second)
	f := vconcrete(d % S * int64(fr) / S) // case split on the frame number (at most 30 values)
	p, err := parseDurationSTL(str, fr)
	vassert(err == nil, "C16 stl string: reader accepts the rendering")
	base := d/H*H + d%H/M*M + d%M/S*S
	diff := (int64(p)-base)*int64(fr) - f*S
	vassert(vand(diff >= -int64(fr), diff <= int64(fr)), "C16 stl string: reads back to within 1ns of the frame instant")
	// the second write is decided on its own for every valid timecode (VH_C16_STLTimecodes): the rendering above is one
	vreach("end")
}

// C16 STL: reading a timecode and writing it again changes nothing, for every valid 8-digit timecode hh mm ss ff
// (fields symbolic, frame number case-split) at 25 and 30 fps, and for the 4-byte form. Together with the field
// clauses of VH_C16_STLString / VH_C16_STLBytes (every rendering is a valid timecode) this is "a second write is
// identical to the first".
func VH_C16_STLTimecodes() {
	vmode("int")
	fr := []int{30, 25}[choose(vbound("framerates", 1, 2))]
	hh, mm, ss := nondetInt64(0, 23), nondetInt64(0, 59), nondetInt64(0, 59)
	ff := vconcrete(nondetInt64(0, int64(fr)-1))
	if choose(2) == 0 {
		str := v2(hh) + v2(mm) + v2(ss) + v2(ff)
		p, err := parseDurationSTL(str, fr)
		vassert(err == nil, "C16 stl timecode: reader accepts every valid timecode")
		vreach("parsed")
		str2 := formatDurationSTL(p, fr)
		vassert(veqstr(str2, str), "C16 stl string: second write identical")
	} else {
		b := []byte{byte(hh), byte(mm), byte(ss), byte(ff)}
		p := parseDurationSTLBytes(b, fr)
		vreach("parsed")
		b2 := formatDurationSTLBytes(p, fr)
		vassert(len(b2) == 4, "C16 stl: second write has four bytes")
		if len(b2) == 4 {
			vassert(vand(vand(b2[0] == b[0], b2[1] == b[1]), vand(b2[2] == b[2], b2[3] == b[3])), "C16 stl: second write identical")
		}
	}
	vreach("end")
}

// C16 exact float kernel: the sub-second fraction digits, with the float64 steps encoded exactly (IEEE floating
// point theory over bit-vectors, no relaxation) for every nanosecond offset within a second.
func VH_C16_FractionExact() {
	vsolver("cvc5") // exact IEEE queries: cvc5 decides them in seconds where z3 needs a minute (DESIGN.md section 4)
	// the four format-specific entry points the writers call (and the shared helper itself)
	f := choose(5)
	digits := 3
	if f == 2 || f == 4 {
		digits = 2
	}
	i := nondetInt64(0, 999999999)
	var s string
	switch f {
	case 0:
		s = formatDurationSRT(time.Duration(i))
	case 1:
		s = formatDurationWebVTT(time.Duration(i))
	case 2:
		s = formatDurationSSA(time.Duration(i))
	case 3:
		b, _ := TTMLOutDuration(i).MarshalText()
		s = string(b)
	default:
		s = formatDuration(time.Duration(i), ".", digits)
	}
	vassert(len(s) == 9+digits, "C16 exact: shape")
	if len(s) != 9+digits {
		return
	}
	vassert(veqstr(s[:8], "00:00:00"), "C16 exact: whole-second fields")
	var want int64
	if digits == 3 {
		want = i / 1000000
	} else {
		want = i / 10000000
	}
	// expected digits, most significant first
	var exp []byte
	for k := 0; k < digits; k++ {
		exp = append([]byte{byte('0' + want%10)}, exp...)
		want /= 10
	}
	for k := 0; k < digits; k++ {
		vassert(s[9+k] == exp[k], "C16 exact: fraction digits are the truncated sub-second part")
	}
	vreach("end")
}
