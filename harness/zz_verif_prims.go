package astisub

// Harness primitives. The symbolic engine (ssasmt) intercepts calls to these functions by name and never
// executes their bodies; the bodies below are the native semantics used when a counterexample is replayed
// (go test -overlay) and when the translator is validated: they read the recorded input vector.

import (
	"bufio"
	"encoding/json"
	"errors"
	"fmt"
	"os"
	"os/exec"
	"reflect"
	"runtime"
	"strings"
	"sync"
	"time"
	"unsafe"
)

// vstate is the replay cursor. There is one global cursor, or (concurrent replay of C20 counterexamples under the
// race detector) one cursor per goroutine, registered before the goroutines are released.
type vstate struct {
	vec   []int64
	kinds string
	pos   int
}

var (
	vglobal vstate
	vstates map[uint64]*vstate // read-only while the goroutines run
	vtier   string
)

func vgoid() uint64 {
	var buf [64]byte
	n := runtime.Stack(buf[:], false)
	// "goroutine 123 [running]:..."
	var id uint64
	for _, c := range buf[10:n] {
		if c < '0' || c > '9' {
			break
		}
		id = id*10 + uint64(c-'0')
	}
	return id
}

func vcur() *vstate {
	if vstates == nil {
		return &vglobal
	}
	return vstates[vgoid()]
}

type vViolation struct{ label string }
type vAssumeFailed struct{}
type vVectorError struct{ msg string }

func vnext(kind byte) int64 {
	st := vcur()
	if st.pos >= len(st.vec) {
		panic(vVectorError{fmt.Sprintf("input vector exhausted at position %d (want %c)", st.pos, kind)})
	}
	if st.pos < len(st.kinds) && st.kinds[st.pos] != kind {
		panic(vVectorError{fmt.Sprintf("input vector kind mismatch at %d: have %c want %c", st.pos, st.kinds[st.pos], kind)})
	}
	v := st.vec[st.pos]
	st.pos++
	return v
}

func nondetInt64(lo, hi int64) int64 {
	v := vnext('i')
	if v < lo || v > hi {
		panic(vVectorError{fmt.Sprintf("value %d outside [%d,%d]", v, lo, hi)})
	}
	return v
}
func nondetInt(lo, hi int) int { return int(nondetInt64(int64(lo), int64(hi))) }
func nondetBool() bool         { return vnext('b') != 0 }
func nondetByte() byte         { return byte(vnext('b')) }
func nondetByteIn(set string) byte {
	v := byte(vnext('b'))
	if strings.IndexByte(set, v) < 0 {
		panic(vVectorError{fmt.Sprintf("byte %d not in set %q", v, set)})
	}
	return v
}
func vsymstr(n int, set string) string {
	b := make([]byte, n)
	for i := range b {
		b[i] = nondetByteIn(set)
	}
	return string(b)
}
func choose(n int) int {
	v := int(vnext('c'))
	if v < 0 || v >= n {
		panic(vVectorError{fmt.Sprintf("choice %d outside [0,%d)", v, n)})
	}
	return v
}
func vassume(c bool) {
	if !c {
		panic(vAssumeFailed{})
	}
}
func vassert(c bool, label string) {
	if !c {
		panic(vViolation{label})
	}
}
func vreach(label string) {}
func vbound(name string, quick, thorough int) int {
	if vtier == "" {
		vtier = os.Getenv("VERIF_TIER")
	}
	if vtier == "thorough" {
		return thorough
	}
	return quick
}
func vmode(m string)          {}
func vsolver(name string)     {}
func vand(a, b bool) bool     { return a && b }
func vor(a, b bool) bool      { return a || b }
func vnot(a bool) bool        { return !a }
func vimplies(a, b bool) bool { return !a || b }
func vmaporder(on bool)       {}
func vnote(s string)          {}
func vconcrete(x int64) int64 { return x }
func vfreeze()                {}
func veqstr(a, b string) bool { return a == b }

type vtestingT interface {
	Logf(format string, args ...interface{})
	Fatalf(format string, args ...interface{})
}

// vreplayRun loads a replay file and runs the harness on its vector. It prints VERIF-REPRODUCED when the
// recorded violation (failed assertion or run-time panic) shows up in the native run.
func vreplayRun(t vtestingT, path string, h func()) {
	b, err := os.ReadFile(path)
	if err != nil {
		t.Fatalf("replay file: %v", err)
	}
	var rf struct {
		Harness string
		Label   string
		Kind    string
		Tier    string
		Vector  []int64
		Kinds   string
	}
	if err := json.Unmarshal(b, &rf); err != nil {
		t.Fatalf("replay file: %v", err)
	}
	if rf.Tier != "" {
		vtier = rf.Tier
	}
	defer vcleanup()
	// map iteration order inside the real code cannot be dictated: repeat the run
	attempts := 1
	if strings.Contains(rf.Label, "map-order") {
		attempts = 1000
	}
	if vtier == "" {
		vtier = os.Getenv("VERIF_TIER") // set once, before any goroutine of a concurrent replay reads it
		if vtier == "" {
			vtier = "quick"
		}
	}
	if strings.Contains(rf.Label, "package-level state") {
		// the engine saw a store into shared package state: confirm natively by running the same call on several
		// goroutines under the race detector (the test binary is built with -race; a report fails the test)
		const g = 4
		states := map[uint64]*vstate{}
		var mu sync.Mutex
		var ready, done sync.WaitGroup
		start := make(chan struct{})
		ready.Add(g)
		done.Add(g)
		for i := 0; i < g; i++ {
			go func() {
				defer done.Done()
				mu.Lock()
				states[vgoid()] = &vstate{vec: rf.Vector, kinds: rf.Kinds}
				mu.Unlock()
				ready.Done()
				<-start
				vrunOnce(h)
			}()
		}
		ready.Wait()
		vstates = states
		close(start)
		done.Wait()
		vstates = nil
		fmt.Printf("VERIF-CONCURRENT-RUN-DONE\n")
		return
	}
	for i := 0; i < attempts; i++ {
		vglobal = vstate{vec: rf.Vector, kinds: rf.Kinds}
		res := vrunOnce(h)
		if res == "" {
			continue
		}
		if strings.HasPrefix(res, "vector:") || res == "assume" || res == "engine-only" {
			fmt.Printf("VERIF-NOT-REPRODUCED %s\n", res)
			return
		}
		fmt.Printf("VERIF-REPRODUCED %s\n", res)
		t.Fatalf("violation reproduced: %s", res)
		return
	}
	fmt.Printf("VERIF-NOT-REPRODUCED harness ran to completion\n")
}

// vwitnessRun: native cross-validation of the engine. Every recorded input is the solver's model of a path the engine
// completed without violation; the native run must pass the same assertions.
func vwitnessRun(t vtestingT, path string, hs map[string]func()) {
	b, err := os.ReadFile(path)
	if err != nil {
		t.Fatalf("witness file: %v", err)
	}
	var wf struct {
		Tier string
		Runs []struct {
			Harness string
			Vector  []int64
			Kinds   string
		}
	}
	if err := json.Unmarshal(b, &wf); err != nil {
		t.Fatalf("witness file: %v", err)
	}
	if wf.Tier != "" {
		vtier = wf.Tier
	}
	defer vcleanup()
	for i, r := range wf.Runs {
		h := hs[r.Harness]
		if h == nil {
			fmt.Printf("VERIF-WITNESS %d SKIP unknown harness\n", i)
			continue
		}
		vglobal = vstate{vec: r.Vector, kinds: r.Kinds}
		res := vrunOnce(h)
		switch {
		case res == "":
			fmt.Printf("VERIF-WITNESS %d OK\n", i)
		case strings.HasPrefix(res, "vector:") || res == "assume" || res == "engine-only":
			fmt.Printf("VERIF-WITNESS %d SKIP %s\n", i, res)
		default:
			fmt.Printf("VERIF-WITNESS %d FAIL %s\n", i, strings.ReplaceAll(res, "\n", " "))
		}
	}
}

// vtmpdir / vtouch: file-system fixtures of native runs (the engine stubs os.Open / os.Create instead).
var vtmp string

func vtmpdir() string {
	if vtmp == "" {
		d, err := os.MkdirTemp("", "verif.native.")
		if err != nil {
			panic(vVectorError{"native fixture: " + err.Error()}) // an environment problem is not a finding
		}
		vtmp = d
	}
	return vtmp
}
func vtouch(name string) {
	if err := os.WriteFile(name, nil, 0o644); err != nil {
		panic(vVectorError{"native fixture: " + err.Error()})
	}
}
func vcleanup() {
	if vtmp != "" {
		os.RemoveAll(vtmp)
		vtmp = ""
	}
}

func vnative() bool { return true }

// vcliRun runs the astisub command: natively the binary built from the tree under test, in a child process. durs are
// -a1 -a2 -d1 -d2 -f -s in nanoseconds (0 = flag not given). Returns whether it ended with an error exit.
func vcliRun(cmd string, inputs []string, output string, page int, durs []int64) bool {
	bin := vtmpdir() + "/astisub-cli"
	if _, err := os.Stat(bin); err != nil {
		c := exec.Command("go", "build", "-o", bin, "./astisub")
		c.Env = append(os.Environ(), "GOFLAGS=-mod=mod", "GOPROXY=off", "GOSUMDB=off", "GOTOOLCHAIN=local")
		if out, err := c.CombinedOutput(); err != nil {
			panic(vVectorError{"building the astisub command: " + err.Error() + " " + string(out)})
		}
	}
	var args []string
	if cmd != "" {
		args = append(args, cmd)
	}
	for _, i := range inputs {
		args = append(args, "-i", i)
	}
	if output != "" {
		args = append(args, "-o", output)
	}
	if page != 0 {
		args = append(args, "-p", fmt.Sprint(page))
	}
	for i, n := range []string{"a1", "a2", "d1", "d2", "f", "s"} {
		if i < len(durs) && durs[i] != 0 {
			args = append(args, "-"+n, time.Duration(durs[i]).String())
		}
	}
	out, err := exec.Command(bin, args...).CombinedOutput()
	if err != nil {
		fmt.Printf("VCLI %v: %v: %s\n", args, err, out)
		if i := strings.Index(string(out), "panic: "); i >= 0 {
			// a crash of the command is a run-time panic of the code under test, not an error exit
			msg := string(out[i:])
			if j := strings.IndexByte(msg, '\n'); j >= 0 {
				msg = msg[:j]
			}
			panic("astisub command: " + msg)
		}
	}
	return err != nil
}

type vEngineOnly struct{}

// vengineOnly marks a harness whose oracle reads engine-side captures (e.g. the value handed to the XML encoder):
// it has no native counterpart and is left out of the cross-validation.
func vengineOnly() { panic(vEngineOnly{}) }

func vrunOnce(h func()) (res string) {
	defer func() {
		if r := recover(); r != nil {
			switch r := r.(type) {
			case vViolation:
				res = "assert: " + r.label
			case vAssumeFailed:
				res = "assume"
			case vVectorError:
				res = "vector: " + r.msg
			case vEngineOnly:
				res = "engine-only"
			default:
				res = fmt.Sprintf("panic: %v", r)
			}
		}
	}()
	h()
	return ""
}

// vscannerSplit returns the split function installed in a bufio.Scanner (an unexported field; the engine reads
// the field of its own representation, the native run uses reflect+unsafe).
func vscannerSplit(s *bufio.Scanner) bufio.SplitFunc {
	f := reflect.ValueOf(s).Elem().FieldByName("split")
	return *(*bufio.SplitFunc)(unsafe.Pointer(f.UnsafeAddr()))
}

func timeDur(ns int64) time.Duration { return time.Duration(ns) }

// Environment providers used by the engine for os.Open / os.Create (never called natively: a native run uses the real OS).
var vstubFail bool

func vstubOpen(name string) error {
	if vfs != nil {
		f := vfs[name]
		if f == nil {
			return errors.New("verif: no such file")
		}
		f.pos = 0
		return nil
	}
	if vstubFail {
		return errors.New("verif: open failed")
	}
	return nil
}
func vstubCreate(name string) error {
	if vfs != nil {
		vfs[name] = &vfile{}
		return nil
	}
	return vstubOpen(name)
}

// vdeepequal: structural equality following pointers (engine: own heap walk returning a formula; native: reflect).
func vdeepequal(a, b interface{}) bool { return reflect.DeepEqual(a, b) }

func vprint(name string, v interface{}) { fmt.Printf("VPRINT %s = %v\n", name, v) }

// translator-validation primitives
func vpin(s string) string     { return s }
func vpinInt(x int64) int64    { return x }
func vobserve(label, v string) { fmt.Printf("VOBSERVE %s=%s\n", label, v) }
func vreadfile(path string) string {
	b, err := os.ReadFile(path)
	if err != nil {
		panic(err)
	}
	return string(b)
}
