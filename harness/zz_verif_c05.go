package astisub

import (
	"bytes"
	"time"
)

// C05 H2a: every single character of the Latin code table round-trips: encode(decode(b)) == b.  BV8.
func VH_C05_CharTable() {
	b := nondetByte()
	vassume(b >= 0x20)
	vassume(vor(b < 0x7f, b >= 0xa0))
	vassume(vor(b < 0xc0, b > 0xcf)) // floating diacritics are handled with their letter (VH_C05_Diacritics)
	h, err := newSTLCharacterHandler(stlCharacterCodeTableNumberLatin)
	vassert(err == nil, "C05 chars: Latin table exists")
	d := h.decode(b)
	if len(d) == 0 {
		vreach("unassigned")
		return // code point not assigned in the table
	}
	e := encodeTextSTL(string(d))
	if b == 0xa4 {
		// known finding: '$' is read from 0xa4 but written as 0x24 (which reads as the currency sign); the byte is pinned by the repository's golden file
		vassert(len(e) == 1 && e[0] == b, "C05 chars: the dollar sign (0xa4) round-trips")
		return
	}
	vassert(len(e) == 1 && e[0] == b, "C05 chars: encode(decode(b)) == b for every assigned Latin table byte")
	vreach("end")
}

// C05 H2b: floating diacritic + letter composes on read and decomposes back to the same two bytes on write.
func VH_C05_Diacritics() {
	dia := nondetByteIn("\xc1\xc2\xc3\xc4\xc5\xc6\xc7\xc8\xca\xcb\xcd\xce\xcf")
	let := nondetByteIn("aeioucnszyAEOUCNSZ")
	h, _ := newSTLCharacterHandler(stlCharacterCodeTableNumberLatin)
	d1 := h.decode(dia)
	vassert(len(d1) == 0, "C05 diacritic: nothing emitted until the letter arrives")
	d2 := h.decode(let)
	vassert(len(d2) > 0, "C05 diacritic: composed character emitted")
	e := encodeTextSTL(string(d2))
	vassert(len(e) == 2 && e[0] == dia && e[1] == let, "C05 diacritic: encode(decode(diacritic, letter)) gives the same two bytes")
	vreach("end")
}

type vstlCue struct {
	lines [][]vrunSTL
}
type vrunSTL struct {
	text      string
	italic    bool
	underline bool
}

func vc05Corpus() [][]vrunSTL {
	return [][]vrunSTL{
		{{text: "Hello"}},
		{{text: "été à Noël"}},
		{{text: "it", italic: true}, {text: "plain"}},
		{{text: "100% & more!"}},
		{{text: "und", underline: true}},
		{{text: "Æsop ß ø"}},
	}
}

// C05 H5: write -> read for the open-subtitling display standard and for teletext with boxed text: cues, rows, runs,
// justification, vertical position, metadata; one 1024-byte GSI block plus one 128-byte TTI block per cue.
func VH_C05_WriteRead() { vc05WriteRead(false) }

// The same for the teletext display standards (the writer's default). Known finding: the writer never emits the
// teletext start-box code, so the library's own reader recovers no text (see known_findings.txt).
func VH_C05_WriteReadTeletext() { vc05WriteRead(true) }

func vc05WriteRead(teletext bool) {
	k := choose(vbound("shapes", 12, 36))
	dsc := "0"
	if teletext {
		dsc = []string{"1", "2"}[k%2]
	}
	fr := []int{25, 30}[(k/3)%2]
	n := 1 + (k/2)%2
	corpus := vc05Corpus()
	s := NewSubtitles()
	maxRows := 23
	if dsc == "0" {
		maxRows = 10
	}
	// GSI text fields: short values, or values that fill their field to the last byte (32 resp. 16 characters)
	mTitle, mEp, mTr, mPub, mRef := "Prog", "Ep", "Tr", "Pub", "ref"
	if k%4 == 3 {
		full := "ABCDEFGHIJKLMNOPQRSTUVWXYZ012345"
		mTitle, mEp, mTr, mPub, mRef = full, "e"+full[1:], "t"+full[1:], "p"+full[1:], full[:16]
	}
	s.Metadata = &Metadata{Framerate: fr, STLDisplayStandardCode: dsc, Title: mTitle, STLOriginalEpisodeTitle: mEp, STLTranslatorName: mTr, STLPublisher: mPub,
		STLCountryOfOrigin: "FRA", Language: LanguageFrench, STLRevisionNumber: 3, STLMaximumNumberOfDisplayableRows: vintp(maxRows), STLSubtitleListReferenceCode: mRef}
	type cueM struct {
		st, en time.Duration
		just   Justification
		vp     int
		lines  [][]vrunSTL
	}
	var model []cueM
	for c := 0; c < n; c++ {
		j := Justification(1 + nondetInt64(0, 3))
		vp := int(nondetInt64(1, 23))
		if dsc == "0" {
			vp = int(nondetInt64(0, 9))
		}
		st := time.Duration(c*4+1) * time.Second
		en := st + 2*time.Second + 200*time.Millisecond*time.Duration(k%5) // whole frames at 25 and at 30 fps
		m := cueM{st: st, en: en, just: j, vp: vp}
		nl := 1 + (k+c)%2
		// a cue that fills the 112-byte text field exactly: three rows of 36, 36 and 38 one-byte characters (two bytes
		// each in UTF-8) and two row separators
		full := !teletext && c == 0 && k%6 == 5
		if full {
			nl = 3
		}
		// a cue without text still takes its TTI block (block and subtitle numbers, counts, timecodes)
		if !teletext && c == n-1 && k%6 == 2 {
			nl = 0
		}
		it := &Item{StartAt: st, EndAt: en, InlineStyle: &StyleAttributes{STLJustification: &m.just, STLPosition: &STLPosition{VerticalPosition: vp, MaxRows: maxRows, Rows: nl}}}
		for l := 0; l < nl; l++ {
			runs := corpus[(k+2*c+3*l)%len(corpus)]
			if full {
				t := ""
				for x := 0; x < []int{36, 36, 38}[l]; x++ {
					t += []string{"ø", "æ", "ß"}[(x+l)%3]
				}
				runs = []vrunSTL{{text: t}}
			}
			m.lines = append(m.lines, runs)
			var line Line
			for _, r := range runs {
				li := LineItem{Text: r.text}
				sa := &StyleAttributes{}
				if r.italic {
					sa.STLItalics = vboolp(true)
				}
				if r.underline {
					sa.STLUnderline = vboolp(true)
				}
				if dsc != "0" {
					sa.STLBoxing = vboolp(true) // teletext: only boxed text is displayed
				}
				li.InlineStyle = sa
				line.Items = append(line.Items, li)
			}
			it.Lines = append(it.Lines, line)
		}
		s.Items = append(s.Items, it)
		model = append(model, m)
	}
	var buf bytes.Buffer
	vassert(s.WriteToSTL(&buf) == nil, "C05 write succeeds")
	out := buf.Bytes()
	vassert(len(out) == 1024+128*n, "C05 write: one 1024-byte GSI block plus one 128-byte TTI block per cue")
	vreach("written")
	r, err := ReadFromSTL(bytes.NewReader(out), STLOptions{})
	vassert(err == nil, "C05 write->read: readable")
	if err != nil {
		return
	}
	vassert(len(r.Items) == n, "C05 write->read: same number of cues")
	md := r.Metadata
	vassert(md != nil && md.Framerate == fr && md.STLDisplayStandardCode == dsc && md.Title == mTitle && md.STLOriginalEpisodeTitle == mEp && md.STLTranslatorName == mTr &&
		md.STLPublisher == mPub && md.STLCountryOfOrigin == "FRA" && md.Language == LanguageFrench && md.STLRevisionNumber == 3 && md.STLSubtitleListReferenceCode == mRef &&
		md.STLMaximumNumberOfDisplayableRows != nil && *md.STLMaximumNumberOfDisplayableRows == maxRows, "C05 write->read: GSI metadata")
	for c, m := range model {
		if c >= len(r.Items) {
			break
		}
		it := r.Items[c]
		vassert(it.StartAt == m.st && it.EndAt == m.en, "C05 write->read: timecodes")
		vassert(it.InlineStyle != nil && it.InlineStyle.STLJustification != nil && *it.InlineStyle.STLJustification == m.just, "C05 write->read: justification")
		vassert(it.InlineStyle != nil && it.InlineStyle.STLPosition != nil && it.InlineStyle.STLPosition.VerticalPosition == m.vp, "C05 write->read: vertical position")
		vassert(len(it.Lines) == len(m.lines), "C05 write->read: rows")
		for l, runs := range m.lines {
			if l >= len(it.Lines) {
				break
			}
			// compare the text of the row and the italic/underline flags per character class
			want, got := "", ""
			// the text of the row, whitespace between runs disregarded
			for _, rn := range runs {
				want += rn.text
			}
			for _, li := range it.Lines[l].Items {
				got += vtrimSpaces(li.Text)
			}
			vassert(got == want, "C05 write->read: row text over the Latin repertoire")
			for _, rn := range runs {
				found := false
				for _, li := range it.Lines[l].Items {
					if vtrimSpaces(li.Text) == rn.text {
						found = true
						ital := li.InlineStyle != nil && li.InlineStyle.STLItalics != nil && *li.InlineStyle.STLItalics
						und := li.InlineStyle != nil && li.InlineStyle.STLUnderline != nil && *li.InlineStyle.STLUnderline
						vassert(ital == rn.italic && und == rn.underline, "C05 write->read: italic/underline of the run")
					}
				}
				vassert(found, "C05 write->read: run boundaries at style codes")
			}
		}
	}
	vreach("end")
}

func vtrimSpaces(s string) string {
	for len(s) > 0 && s[0] == ' ' {
		s = s[1:]
	}
	for len(s) > 0 && s[len(s)-1] == ' ' {
		s = s[:len(s)-1]
	}
	return s
}

// C05 H3: reader: programme start offset (unless ignored), user-data blocks skipped, timecodes at the disk frame rate.
func VH_C05_ReadOffsets() {
	vmode("int")
	fr := []int{25, 30}[choose(2)]
	ignore := choose(2) == 1
	s := NewSubtitles()
	s.Metadata = &Metadata{Framerate: fr, STLDisplayStandardCode: "0", STLTimecodeStartOfProgramme: 10 * time.Hour}
	s.Items = append(s.Items, &Item{StartAt: 10*time.Hour + time.Second, EndAt: 10*time.Hour + 2*time.Second, Lines: []Line{{Items: []LineItem{{Text: "a"}}}}})
	s.Items = append(s.Items, &Item{StartAt: 10*time.Hour + 3*time.Second, EndAt: 10*time.Hour + 4*time.Second, Lines: []Line{{Items: []LineItem{{Text: "b"}}}}})
	var buf bytes.Buffer
	vassert(s.WriteToSTL(&buf) == nil, "C05 fixture written")
	d := buf.Bytes()
	// symbolic time-code-in of the first TTI block: 10h + m:s:f
	m, sec, f := nondetInt64(0, 59), nondetInt64(0, 59), nondetInt64(0, int64(fr)-1)
	d[1024+5], d[1024+6], d[1024+7], d[1024+8] = 10, byte(m), byte(sec), byte(f)
	// a user-data block (extension block number 0xfe) between the two cues
	ud := append([]byte{}, d[1024:1024+128]...)
	ud[3] = 0xfe // extension block number: reserved for user data
	// arbitrary user data: it denotes nothing, whatever it contains (diacritic codes, control codes, filler)
	for i := 0; i < 3; i++ {
		ud[16+i] = nondetByteIn("x\xc2\x8f\x01\x0b\x8a")
	}
	doc := append(append(append([]byte{}, d[:1024+128]...), ud...), d[1024+128:]...)
	r, err := ReadFromSTL(bytes.NewReader(doc), STLOptions{IgnoreTimecodeStartOfProgramme: ignore})
	vassert(err == nil && len(r.Items) == 2, "C05 read: user-data blocks produce no cue and shift nothing")
	if err != nil || len(r.Items) != 2 {
		return
	}
	want := (m*60+sec)*1000000000 + (f*1000000000+int64(fr)-1)/int64(fr)
	if ignore {
		want += int64(10 * time.Hour)
	}
	vassert(int64(r.Items[0].StartAt) == want, "C05 read: time code in at the disk frame rate, minus programme start unless ignored")
	vassert(vtextOf(r.Items[1]) == "b", "C05 read: following cue intact")
	vreach("end")
}

// C05 H6: open subtitling, one TTI block whose text field holds n symbolic bytes over letters, space, the six
// italic/underline/boxing codes' representatives and the row separator: rows split at the separator; within a row a
// run ends at every style code that follows text; every run carries the state of all three attributes accumulated
// since the start of its row (unset / on / off), blank runs are dropped.
func VH_C05_ReadStyleCodes() {
	n := vbound("textbytes", 4, 5)
	s := NewSubtitles()
	s.Metadata = &Metadata{Framerate: 25, STLDisplayStandardCode: "0"}
	s.Items = append(s.Items, &Item{StartAt: time.Second, EndAt: 2 * time.Second, Lines: []Line{{Items: []LineItem{{Text: "x"}}}}})
	var buf bytes.Buffer
	vassert(s.WriteToSTL(&buf) == nil, "C05 fixture written")
	d := buf.Bytes()
	text := make([]byte, n)
	for i := range text {
		text[i] = nondetByteIn("ab \x80\x81\x82\x84\x85\x8a")
		d[1024+16+i] = text[i]
	}
	for i := 1024 + 16 + n; i < 1024+128; i++ {
		d[i] = 0x8f
	}
	vreach("pre")
	r, err := ReadFromSTL(bytes.NewReader(d), STLOptions{})
	vassert(err == nil && len(r.Items) == 1, "C05 style codes: readable, one cue")
	if err != nil || len(r.Items) != 1 {
		return
	}
	// specification
	type run struct {
		text          string
		ital, und, bx int // 0 unset, 1 on, 2 off
	}
	var rows [][]run
	var cur []run
	var t string
	ital, und, bx := 0, 0, 0
	flush := func() {
		if vtrimSpaces(t) != "" {
			cur = append(cur, run{vtrimSpaces(t), ital, und, bx})
		}
		t = ""
	}
	endRow := func() {
		flush()
		if len(cur) > 0 {
			rows = append(rows, cur)
		}
		cur, ital, und, bx = nil, 0, 0, 0
	}
	for _, c := range text {
		switch c {
		case 0x8a:
			endRow()
		case 0x80, 0x81, 0x82, 0x84, 0x85:
			flush()
			switch c {
			case 0x80:
				ital = 1
			case 0x81:
				ital = 2
			case 0x82:
				und = 1
			case 0x84:
				bx = 1
			case 0x85:
				bx = 2
			}
		default:
			t += string([]byte{c})
		}
	}
	endRow()
	tri := func(p *bool) int {
		if p == nil {
			return 0
		}
		if *p {
			return 1
		}
		return 2
	}
	it := r.Items[0]
	vassert(len(it.Lines) == len(rows), "C05 style codes: rows split at the line-break code, empty rows dropped")
	for l := range rows {
		if l >= len(it.Lines) {
			break
		}
		vassert(len(it.Lines[l].Items) == len(rows[l]), "C05 style codes: a run ends at every style code that follows text")
		for k, w := range rows[l] {
			if k >= len(it.Lines[l].Items) {
				break
			}
			li := it.Lines[l].Items[k]
			vassert(li.Text == w.text, "C05 style codes: text of the run")
			vassert(li.InlineStyle != nil, "C05 style codes: run has attributes")
			if li.InlineStyle != nil {
				vassert(tri(li.InlineStyle.STLItalics) == w.ital && tri(li.InlineStyle.STLUnderline) == w.und && tri(li.InlineStyle.STLBoxing) == w.bx,
					"C05 style codes: every run carries the italic, underline and boxing state accumulated in its row")
			}
		}
	}
	vreach("end")
}
