package astisub

import (
	"bytes"
	"errors"
	"io"
	"strings"
	"time"
)

var verrFault = errors.New("verif: injected I/O fault")

// vfaultReader delivers data[:k] (in one or two reads) and then fails with a non-EOF error.
type vfaultReader struct {
	data []byte
	k    int
	pos  int
	err  error // the failure reported after k bytes (nil: verrFault)
}

func (r *vfaultReader) Read(p []byte) (int, error) {
	if r.pos >= r.k {
		if r.err != nil {
			return 0, r.err
		}
		return 0, verrFault
	}
	n := copy(p, r.data[r.pos:r.k])
	r.pos += n
	return n, nil
}

func vc18Doc(format int) []byte {
	// symbolic second digits keep the cue boundaries symbolic; the documents are otherwise fixed and valid
	x := string([]byte{nondetByteIn("0123456789")})
	y := string([]byte{nondetByteIn("0123456789")})
	switch format {
	case 0:
		return []byte("1\r\n00:00:0" + x + ",000 --> 00:00:1" + y + ",000\r\nHello\r\n\r\n2\r\n00:00:20,000 --> 00:00:21,000\r\nWorld\r\n")
	case 1:
		return []byte("WEBVTT\n\n1\n00:00:0" + x + ".000 --> 00:00:1" + y + ".000\nHello\n\n2\n00:00:20.000 --> 00:00:21.000\nWorld\n")
	default:
		return []byte("[Script Info]\nTitle: t\n\n[V4 Styles]\nFormat: Name, Fontname\nStyle: Default,Arial\n\n[Events]\nFormat: Marked, Start, End, Style, Text\nDialogue: Marked=0,0:00:0" + x + ".00,0:00:1" + y + ".00,Default,Hello\nDialogue: Marked=0,0:00:20.00,0:00:21.00,Default,World\n")
	}
}

func vc18Read(format int, r io.Reader) (*Subtitles, error) {
	switch format {
	case 0:
		return ReadFromSRT(r)
	case 1:
		return ReadFromWebVTT(r)
	default:
		return ReadFromSSA(r)
	}
}

// C18 H1: a read fault at any byte offset of the document is reported by the line-based readers.
func VH_C18_ReadFaultText() {
	format := choose(3)
	doc := vc18Doc(format)
	full, err := vc18Read(format, bytes.NewReader(doc))
	vassert(err == nil && len(full.Items) == 2, "C18 fixture parses to two cues")
	vreach("fixture")
	k := choose(len(doc) + 1) // fault after k bytes, k in 0..len
	// any error other than end-of-file: an anonymous one, or the sentinel some streams (truncated gzip, cut-short HTTP
	// bodies) fail with
	ferr := []error{nil, io.ErrUnexpectedEOF, io.ErrClosedPipe}[choose(3)]
	s, err := vc18Read(format, &vfaultReader{data: doc, k: k, err: ferr})
	_ = s
	vassert(err != nil, "C18 read fault is reported (non-nil error), not a shorter cue list")
	vreach("end")
}

// C18: a line longer than the scanner can buffer is reported.
func VH_C18_LongLine() {
	format := choose(3)
	long := strings.Repeat("a", 65537)
	doc := []byte("1\n00:00:01,000 --> 00:00:02,000\n" + long + "\n")
	if format == 1 {
		doc = []byte("WEBVTT\n\n00:00:01.000 --> 00:00:02.000\n" + long + "\n")
	} else if format == 2 {
		doc = []byte("[Events]\nFormat: Start, End, Text\nDialogue: 0:00:01.00,0:00:02.00," + long + "\n")
	}
	_, err := vc18Read(format, bytes.NewReader(doc))
	vassert(err != nil, "C18 over-long line is reported (non-nil error)")
	vreach("end")
}

// C18: STL read faults.
func VH_C18_ReadFaultSTL() {
	s := NewSubtitles()
	s.Items = append(s.Items, &Item{StartAt: 0, EndAt: 1000000000, Lines: []Line{{Items: []LineItem{{Text: "a"}}}}})
	var buf bytes.Buffer
	vassert(s.WriteToSTL(&buf) == nil, "C18 stl fixture written")
	data := buf.Bytes()
	data[1024+8] = byte(nondetInt64(0, 24))
	ks := []int{0, 1, 512, 1023, 1024, 1025, 1024 + 64, len(data) - 1}
	k := ks[choose(len(ks))]
	_, err := ReadFromSTL(&vfaultReader{data: data, k: k, err: []error{nil, io.ErrUnexpectedEOF}[choose(2)]}, STLOptions{})
	vassert(err != nil, "C18 stl read fault is reported")
	vreach("end")
}

// vfaultWriter fails on its j-th Write call (j < 0: never) and records everything handed to it.
type vfaultWriter struct {
	j     int
	calls int
	got   []byte
}

func (w *vfaultWriter) Write(p []byte) (int, error) {
	if w.calls == w.j {
		w.calls++
		return 0, verrFault
	}
	w.calls++
	w.got = append(w.got, p...)
	return len(p), nil
}

func vc18Write(format int, s *Subtitles, w io.Writer) error {
	switch format {
	case 0:
		return s.WriteToSRT(w)
	case 1:
		return s.WriteToWebVTT(w)
	case 2:
		return s.WriteToSSA(w)
	default:
		return s.WriteToSTL(w)
	}
}

// C18 H2: a write fault at any Write call is reported; without a fault the complete document is handed over.
func VH_C18_WriteFault() {
	vmode("int")
	format := choose(3)
	s := NewSubtitles()
	s.Metadata = &Metadata{Framerate: 25}
	// with or without the optional blocks of the document (SSA styles; WebVTT regions and style block)
	if choose(2) == 1 {
		s.Metadata.Title = "t"
		s.Styles["s"] = &Style{ID: "s", InlineStyle: &StyleAttributes{SSAFontName: "Arial", SSABold: vboolp(true), WebVTTStyles: []string{"::cue { color: red }"}}}
		s.Regions["r"] = &Region{ID: "r", InlineStyle: &StyleAttributes{WebVTTLines: 3}}
	}
	n := 1 + choose(2)
	for i := 0; i < n; i++ {
		st := nondetInt64(0, 3599) * 1000000000
		it := &Item{StartAt: timeDur(st), EndAt: timeDur(st + 1000000000), Lines: []Line{{Items: []LineItem{{Text: "a"}}}}}
		if len(s.Styles) > 0 {
			it.Style, it.Region = s.Styles["s"], s.Regions["r"]
		}
		s.Items = append(s.Items, it)
	}
	var buf bytes.Buffer
	vassert(vc18Write(format, s, &buf) == nil, "C18 write without fault succeeds")
	ok := &vfaultWriter{j: -1}
	vassert(vc18Write(format, s, ok) == nil, "C18 write without fault succeeds (recording writer)")
	vassert(ok.calls >= 1, "C18 writer hands the document to the destination")
	vassert(bytes.Equal(ok.got, buf.Bytes()), "C18 successful return means the complete document was handed over")
	vreach("nofault")
	j := choose(ok.calls)
	err := vc18Write(format, s, &vfaultWriter{j: j})
	vassert(err != nil, "C18 write fault is reported")
	vreach("end")
}

// C18 H2 for STL (bit-vector encoding; concrete times: the timecode arithmetic is covered by C16).
func VH_C18_WriteFaultSTL() {
	s := NewSubtitles()
	n := 1 + choose(2)
	for i := 0; i < n; i++ {
		s.Items = append(s.Items, &Item{StartAt: timeDur(int64(i) * 2000000000), EndAt: timeDur(int64(i)*2000000000 + 1000000000), Lines: []Line{{Items: []LineItem{{Text: "a"}}}}})
	}
	if choose(2) == 1 {
		s.Metadata = &Metadata{Framerate: 25}
	}
	var buf bytes.Buffer
	vassert(vc18Write(3, s, &buf) == nil, "C18 stl write without fault succeeds")
	ok := &vfaultWriter{j: -1}
	vassert(vc18Write(3, s, ok) == nil, "C18 stl write without fault succeeds (recording writer)")
	vassert(ok.calls >= 1 && bytes.Equal(ok.got, buf.Bytes()), "C18 stl: successful return means the complete document was handed over")
	vassert(len(ok.got) == 1024+128*n, "C18 stl: one GSI block and one TTI block per cue")
	j := choose(ok.calls)
	err := vc18Write(3, s, &vfaultWriter{j: j})
	vassert(err != nil, "C18 stl write fault is reported")
	vreach("end")
}

// C18 H3: the file helpers report files that cannot be opened or created.
func VH_C18_FileHelpers() {
	vstubFail = true
	_, err := OpenFile("/nonexistent/x.srt")
	vassert(err != nil, "C18 Open reports a missing file")
	s := NewSubtitles()
	s.Items = append(s.Items, &Item{EndAt: 1, Lines: []Line{{Items: []LineItem{{Text: "a"}}}}})
	err = s.Write("/nonexistent/dir/x.srt")
	vassert(err != nil, "C18 Write reports an uncreatable file")
	vreach("end")
}

// C18 H7: the readers and the writer that delegate to another layer (TTML: encoding/xml; teletext: the transport-stream
// demultiplexer) report that layer's failure. Engine: the layer's provider fails; native run: the real layer on a
// stream that fails at offset k.
func VH_C18_DelegatedFaults() {
	vmode("int")
	switch choose(3) {
	case 0: // TTML read
		doc := []byte("<tt xmlns=\"http://www.w3.org/ns/ttml\" xml:lang=\"en\"><head></head><body><div><p begin=\"00:00:01.000\" end=\"00:00:02.000\">Hello</p><p begin=\"00:00:03.000\" end=\"00:00:04.000\">World</p></div></body></tt>")
		k := int(nondetInt64(0, int64(len(doc)-1)))
		vxmlFault = true
		s, err := ReadFromTTML(&vfaultReader{data: doc, k: k})
		vxmlFault = false
		vassert(err != nil, "C18 ttml read fault is reported")
		vassert(s == nil || len(s.Items) == 0 || err != nil, "C18 ttml read fault: no shorter list without an error")
	case 1: // TTML write
		s := NewSubtitles()
		s.Items = append(s.Items, &Item{StartAt: time.Second, EndAt: 2 * time.Second, Lines: []Line{{Items: []LineItem{{Text: "Hello"}}}}})
		w := &vfaultWriter{j: 0}
		vxmlFault = true
		err := s.WriteToTTML(w)
		vxmlFault = false
		vassert(err != nil, "C18 ttml write fault is reported")
	default: // teletext read: the demultiplexer fails after k items of the sequence
		vtsData, vtsPos = nil, 0
		p := func(s int64) int64 { return s * 90000 }
		vtsData = append(vtsData, vpmtData(100))
		vtsData = append(vtsData, vpesData(100, p(100), vpes(vheader(0, 8, 8, true, true, 0), vrow(0, 20, "Hello"))))
		vtsData = append(vtsData, vpesData(100, p(110), vpes(vheader(0, 8, 8, true, true, 0), vrow(0, 20, "World"))))
		vtsData = append(vtsData, vpesData(100, p(120), vpes(vheader(0, 8, 8, true, true, 0))))
		k := choose(len(vtsData) + 1)
		pid := []int{0, 100}[choose(2)]
		data := vtsBytes()
		off := len(data) // native run: the stream fails at a packet boundary proportional to k
		if vnative() {
			off = len(data) / 188 * k / (len(vtsData) + 1) * 188
		}
		vtsFault, vtsFaultPos = true, k
		s, err := ReadFromTeletext(&vfaultReader{data: data, k: off}, TeletextOptions{PID: pid, Page: 888})
		vtsFault = false
		vassert(err != nil, "C18 teletext read fault is reported")
		vassert(s == nil || err != nil, "C18 teletext read fault: no shorter list without an error")
	}
	vreach("end")
}
