package astisub

import (
	"bytes"
	"io"
	"os"
	"time"
)

// provider for (*os.File).Read in the engine: an empty file
func vstubFileRead(p []byte) (int, error)  { return 0, io.EOF }
func vstubFileWrite(p []byte) (int, error) { return len(p), nil }

// A small file system for the engine (harnesses that set vfs): os.Open / os.Create / Read / Write by file name.
type vfile struct {
	data []byte
	pos  int
}

var vfs map[string]*vfile

func vstubFileReadNamed(name string, p []byte) (int, error) {
	f := vfs[name]
	if f == nil {
		return vstubFileRead(p)
	}
	n := copy(p, f.data[f.pos:])
	f.pos += n
	if n == 0 && len(p) > 0 {
		return 0, io.EOF
	}
	return n, nil
}
func vstubFileWriteNamed(name string, p []byte) (int, error) {
	f := vfs[name]
	if f == nil {
		return vstubFileWrite(p)
	}
	f.data = append(f.data, p...)
	return len(p), nil
}

// vfsPut makes a file of that name with that content and returns its path (engine: in vfs; native run: on disk).
func vfsPut(name string, data []byte) string {
	path := vtmpdir() + "/" + name
	if vnative() {
		if err := os.WriteFile(path, data, 0o644); err != nil {
			panic(vVectorError{"native fixture: " + err.Error()}) // an environment problem is not a finding
		}
		return path
	}
	if vfs == nil {
		vfs = map[string]*vfile{}
	}
	vfs[path] = &vfile{data: data}
	return path
}

// vfsGet returns the content of a file written by the code under test.
func vfsGet(path string) ([]byte, bool) {
	if vnative() {
		b, err := os.ReadFile(path)
		return b, err == nil
	}
	f := vfs[path]
	if f == nil {
		return nil, false
	}
	return f.data, true
}

// C07 H1: the codec is chosen by the lower-cased file extension alone; unsupported extensions give the
// invalid-extension error; an empty list gives the nothing-to-write error from every writer.
func VH_C07_Dispatch() {
	n := 2 + choose(3)
	ext := vsymstr(n, "sSrRtTaAlLmMvV")
	name := vtmpdir() + "/file.name." + ext // engine: "dir.d"; native run: a fresh temporary directory with a dot in its name
	vtouch(name)                            // native run: the file exists and is empty (engine: os.Open is the provider below)
	vstubFail = false
	vttmlDoc = nil
	vtsData, vtsPos = nil, 0
	vreach("pre")
	_, err := Open(Options{Filename: name})
	low := ""
	for i := 0; i < len(ext); i++ {
		c := ext[i]
		if c >= 'A' && c <= 'Z' {
			c += 'a' - 'A'
		}
		low += string([]byte{c})
	}
	supportedIn := vor(vor(veqstr(low, "srt"), veqstr(low, "ssa")), vor(vor(veqstr(low, "ass"), veqstr(low, "stl")), vor(vor(veqstr(low, "ts"), veqstr(low, "ttml")), veqstr(low, "vtt"))))
	vassert(supportedIn == (err != ErrInvalidExtension), "C07 Open: reader chosen by the case-insensitive extension, anything else is the invalid-extension error")
	s := NewSubtitles()
	s.Items = append(s.Items, &Item{EndAt: time.Second, Lines: []Line{{Items: []LineItem{{Text: "a"}}}}})
	werr := s.Write(name)
	supportedOut := vor(vor(veqstr(low, "srt"), veqstr(low, "ssa")), vor(vor(veqstr(low, "ass"), veqstr(low, "stl")), vor(veqstr(low, "ttml"), veqstr(low, "vtt"))))
	vassert(supportedOut == (werr != ErrInvalidExtension), "C07 Write: writer chosen by the case-insensitive extension, anything else is the invalid-extension error")
	vreach("end")
}

func VH_C07_NothingToWrite() {
	s := NewSubtitles()
	var b bytes.Buffer
	vassert(s.WriteToSRT(&b) == ErrNoSubtitlesToWrite && s.WriteToSSA(&b) == ErrNoSubtitlesToWrite && s.WriteToSTL(&b) == ErrNoSubtitlesToWrite &&
		s.WriteToTTML(&b) == ErrNoSubtitlesToWrite && s.WriteToWebVTT(&b) == ErrNoSubtitlesToWrite, "C07 an empty cue list yields the nothing-to-write error from every writer")
	vassert(b.Len() == 0, "C07 nothing is written for an empty list")
	vreach("end")
}

// vc07Source reads a small two-cue document of the given source format through the real reader, so that the value has
// exactly the optional parts that reader sets (nil metadata, zero frame rate, nil maps, inline-style presence ...).
func vc07Source(src int, s1, s2 int64) (*Subtitles, error) {
	d1, d2 := string([]byte{byte('0' + s1)}), string([]byte{byte('0' + s2)})
	switch src {
	case 0:
		return ReadFromSRT(bytes.NewReader([]byte("1\n00:00:0" + d1 + ",000 --> 00:00:1" + d1 + ",000\nHello\n\n2\n00:01:0" + d2 + ",000 --> 00:01:1" + d2 + ",000\nWorld\n")))
	case 1:
		return ReadFromWebVTT(bytes.NewReader([]byte("WEBVTT\n\n00:00:0" + d1 + ".000 --> 00:00:1" + d1 + ".000\nHello\n\n00:01:0" + d2 + ".000 --> 00:01:1" + d2 + ".000\nWorld\n")))
	case 2:
		return ReadFromSSA(bytes.NewReader([]byte("[Script Info]\nTitle: t\n\n[V4 Styles]\nFormat: Name, Fontname\nStyle: Default,Arial\n\n[Events]\nFormat: Marked, Start, End, Style, Text\nDialogue: Marked=0,0:00:0" + d1 + ".00,0:00:1" + d1 + ".00,Default,Hello\nDialogue: Marked=0,0:01:0" + d2 + ".00,0:01:1" + d2 + ".00,Default,World\n")))
	case 3:
		w := NewSubtitles()
		w.Metadata = &Metadata{Framerate: 25, STLDisplayStandardCode: "0"}
		w.Items = append(w.Items, &Item{StartAt: time.Duration(s1) * time.Second, EndAt: time.Duration(10+s1) * time.Second, Lines: []Line{{Items: []LineItem{{Text: "Hello"}}}}})
		w.Items = append(w.Items, &Item{StartAt: time.Duration(60+s2) * time.Second, EndAt: time.Duration(70+s2) * time.Second, Lines: []Line{{Items: []LineItem{{Text: "World"}}}}})
		var buf bytes.Buffer
		if err := w.WriteToSTL(&buf); err != nil {
			return nil, err
		}
		return ReadFromSTL(bytes.NewReader(buf.Bytes()), STLOptions{})
	case 4:
		doc := &TTMLIn{Framerate: 0, Lang: "en"}
		// a region without origin/extent, referred to by the first paragraph
		doc.Regions = append(doc.Regions, TTMLInRegion{TTMLInHeader: TTMLInHeader{ID: "r1"}})
		doc.Subtitles = append(doc.Subtitles, TTMLInSubtitle{Begin: vdur(s1 * 1000000000), End: vdur((10 + s1) * 1000000000), Region: "r1"})
		doc.Subtitles = append(doc.Subtitles, TTMLInSubtitle{Begin: vdur((60 + s2) * 1000000000), End: vdur((70 + s2) * 1000000000)})
		vttmlDoc, vttmlItems, vttmlItemsPos = doc, []TTMLInItems{{{Text: "Hello"}}, {{Text: "World"}}}, 0
		// the same document as text, for native runs (the engine's decode provider ignores the bytes)
		return ReadFromTTML(bytes.NewReader([]byte("<tt xmlns=\"http://www.w3.org/ns/ttml\" xml:lang=\"en\"><head><layout><region xml:id=\"r1\"/></layout></head><body><div>" +
			"<p region=\"r1\" begin=\"00:00:0" + d1 + ".000\" end=\"00:00:1" + d1 + ".000\">Hello</p><p begin=\"00:01:0" + d2 + ".000\" end=\"00:01:1" + d2 + ".000\">World</p></div></body></tt>")))
	default:
		vtsData, vtsPos = nil, 0
		p := func(sec int64) int64 { return sec * 90000 }
		vtsData = append(vtsData, vpesData(100, p(100), vpes(vheader(0, 8, 8, true, true, 0))))
		vtsData = append(vtsData, vpesData(100, p(100+s1), vpes(vheader(0, 8, 8, true, true, 0), vrow(0, 20, "Hello"))))
		vtsData = append(vtsData, vpesData(100, p(110+s1), vpes(vheader(0, 8, 8, true, true, 0))))
		vtsData = append(vtsData, vpesData(100, p(160+s2), vpes(vheader(0, 8, 8, true, true, 0), vrow(0, 20, "World"))))
		vtsData = append(vtsData, vpesData(100, p(170+s2), vpes(vheader(0, 8, 8, true, true, 0))))
		return ReadFromTeletext(bytes.NewReader(vtsBytes()), TeletextOptions{PID: 100, Page: 888})
	}
}

// C07 H2: any source shape -> any destination writer -> destination reader: same number of cues in the same order,
// same boundaries (whole seconds here, representable in every format), same text.
func VH_C07_Convert() {
	vmode("int")
	src := choose(6)
	dst := choose(5)                                             // srt, vtt, ssa, stl, ttml
	s1, s2 := []int64{3, 7}[choose(2)], []int64{0, 9}[choose(2)] // concrete boundaries: the timestamp arithmetic itself is C16/C01/C02/C04/C05
	s, err := vc07Source(src, s1, s2)
	vassert(err == nil && len(s.Items) == 2, "C07 source document readable")
	if err != nil || len(s.Items) != 2 {
		return
	}
	base := int64(0)
	if src == 5 {
		base = 0 // teletext times are relative to the first presentation time
	}
	want := [][2]int64{{int64(s.Items[0].StartAt), int64(s.Items[0].EndAt)}, {int64(s.Items[1].StartAt), int64(s.Items[1].EndAt)}}
	_ = base
	vreach("source")
	var buf bytes.Buffer
	var werr error
	switch dst {
	case 0:
		werr = s.WriteToSRT(&buf)
	case 1:
		werr = s.WriteToWebVTT(&buf)
	case 2:
		werr = s.WriteToSSA(&buf)
	case 3:
		werr = s.WriteToSTL(&buf)
	case 4:
		werr = vc07WriteTTML(s, &buf)
	}
	vassert(werr == nil, "C07 conversion: the destination writer succeeds")
	if werr != nil {
		return
	}
	var r *Subtitles
	var rerr error
	switch dst {
	case 0:
		r, rerr = ReadFromSRT(bytes.NewReader(buf.Bytes()))
	case 1:
		r, rerr = ReadFromWebVTT(bytes.NewReader(buf.Bytes()))
	case 2:
		r, rerr = ReadFromSSA(bytes.NewReader(buf.Bytes()))
	case 3:
		r, rerr = ReadFromSTL(bytes.NewReader(buf.Bytes()), STLOptions{})
	case 4:
		r, rerr = ReadFromTTML(bytes.NewReader(buf.Bytes()))
	}
	vassert(rerr == nil, "C07 conversion: the destination reads back")
	if rerr != nil {
		return
	}
	vassert(len(r.Items) == 2, "C07 conversion: same number of cues")
	if len(r.Items) != 2 {
		return
	}
	for c := 0; c < 2; c++ {
		vassert(int64(r.Items[c].StartAt) == want[c][0] && int64(r.Items[c].EndAt) == want[c][1], "C07 conversion: same boundaries, same order")
		if dst != 3 || (s.Metadata != nil && s.Metadata.STLDisplayStandardCode == "0") {
			vassert(vtrimSpaces(vtextOf(r.Items[c])) == []string{"Hello", "World"}[c], "C07 conversion: same text")
		}
	}
	vreach("end")
}

// vc07WriteTTML writes the list as TTML.  Natively the document goes through encoding/xml into buf and is read back
// from there; under the engine the XML layer is the capture/provider pair of C03 (validated against encoding/xml by
// `ssasmt validate`), so the captured output value is turned into the decoded input value the reader will be handed.
func vc07WriteTTML(s *Subtitles, buf *bytes.Buffer) error {
	vxmlCaptured = nil
	vttmlDoc, vttmlItems, vttmlItemsPos = nil, nil, 0
	if err := s.WriteToTTML(buf); err != nil {
		return err
	}
	if len(vxmlCaptured) != 1 {
		return nil // native run: buf holds the document
	}
	out := vxmlCaptured[0].(TTMLOut)
	doc := &TTMLIn{Lang: out.Lang}
	if out.Metadata != nil {
		doc.Metadata = TTMLInMetadata{Copyright: out.Metadata.Copyright, Title: out.Metadata.Title}
	}
	for _, st := range out.Styles {
		doc.Styles = append(doc.Styles, TTMLInStyle{TTMLInHeader: TTMLInHeader{ID: st.ID, Style: st.Style, TTMLInStyleAttributes: TTMLInStyleAttributes(st.TTMLOutStyleAttributes)}})
	}
	for _, rg := range out.Regions {
		doc.Regions = append(doc.Regions, TTMLInRegion{TTMLInHeader: TTMLInHeader{ID: rg.ID, Style: rg.Style, TTMLInStyleAttributes: TTMLInStyleAttributes(rg.TTMLOutStyleAttributes)}})
	}
	ms := int64(time.Millisecond)
	for _, p := range out.Subtitles {
		doc.Subtitles = append(doc.Subtitles, TTMLInSubtitle{Begin: vdur(int64(p.Begin) / ms * ms), End: vdur(int64(p.End) / ms * ms), ID: p.ID, Region: p.Region, Style: p.Style,
			TTMLInStyleAttributes: TTMLInStyleAttributes(p.TTMLOutStyleAttributes)})
		var its TTMLInItems
		for _, i := range p.Items {
			its = append(its, TTMLInItem{Style: i.Style, Text: i.Text, TTMLInStyleAttributes: TTMLInStyleAttributes(i.TTMLOutStyleAttributes), XMLName: i.XMLName})
		}
		vttmlItems = append(vttmlItems, its)
	}
	vttmlDoc = doc
	return nil
}

// ---- operation pipelines: reference model of the documented operations over (start, end, text) triples ----

type vc07Cue struct {
	st, en int64
	text   string
}

func vc07RefOrder(l []vc07Cue) []vc07Cue { // stable
	var o []vc07Cue
	for _, c := range l {
		k := len(o)
		for k > 0 && o[k-1].st > c.st {
			k--
		}
		o = append(o, vc07Cue{})
		copy(o[k+1:], o[k:])
		o[k] = c
	}
	return o
}

func vc07RefAdd(l []vc07Cue, d int64) []vc07Cue {
	var o []vc07Cue
	for _, c := range l {
		if c.en+d <= 0 {
			continue
		}
		if c.st+d < 0 {
			o = append(o, vc07Cue{0, c.en + d, c.text})
		} else {
			o = append(o, vc07Cue{c.st + d, c.en + d, c.text})
		}
	}
	return o
}

// every cue is cut at the multiples of f it strictly contains (at most K of them lie below the last end), then stable order
func vc07RefFragment(l []vc07Cue, f int64, K int) []vc07Cue {
	var o []vc07Cue
	for _, c := range l {
		m := int64(0)
		for k := 1; k <= K; k++ {
			m += f
			if c.st < m && m < c.en {
				o = append(o, vc07Cue{c.st, m, c.text})
				c.st = m
			}
		}
		o = append(o, c)
	}
	return vc07RefOrder(o)
}

// order, then every cue absorbs the later same-text cues it touches or overlaps
func vc07RefUnfragment(l []vc07Cue) []vc07Cue {
	if len(l) <= 1 {
		return l
	}
	o := vc07RefOrder(l)
	for i := 0; i < len(o); i++ {
		for j := i + 1; j < len(o); j++ {
			if o[i].text == o[j].text && o[i].en >= o[j].st {
				if o[j].en > o[i].en {
					o[i].en = o[j].en
				}
				o = append(o[:j], o[j+1:]...)
				j--
			}
		}
	}
	return o
}

// C07 H3: source read by the real reader of any format, boundaries then arbitrary (file order is not start order: no
// reader sorts), any sequence of the documented operations with arbitrary parameters, result compared with the
// operations' specifications composed; the resulting value (whatever sharing, nil parts or removed styles the
// operations left) then goes through every destination writer and reader with representative boundaries.
func VH_C07_Pipeline() {
	vmode("int")
	sec := int64(time.Second)
	nops := choose(3) // 0..2 operations
	var ops []int
	opsum := 0
	for o := 0; o < nops; o++ {
		ops = append(ops, choose(7))
		opsum += ops[o] * (o + 1)
	}
	// every (source, destination) pair for sequences of 0..1 operations; for 2 operations every pair in the thorough
	// tier and one pair per sequence, rotating, in the quick tier
	src, dst := opsum%6, (opsum/2+nops)%5
	if nops < 2 || vbound("pairs", 1, 30) == 30 {
		src, dst = choose(6), choose(5)
	}
	s, err := vc07Source(src, 3, 0)
	if err != nil || len(s.Items) != 2 {
		vassert(false, "C07 pipeline: source document readable")
		return
	}
	var ref []vc07Cue
	for i, it := range s.Items {
		st, en := nondetInt64(0, 60*sec), nondetInt64(0, 60*sec)
		vassume(st < en)
		it.StartAt, it.EndAt = time.Duration(st), time.Duration(en)
		ref = append(ref, vc07Cue{st, en, []string{"Hello", "World"}[i]})
	}
	maxEnd := 60 * sec
	vreach("source")
	for o := 0; o < nops; o++ {
		switch ops[o] {
		case 0: // sync
			d := nondetInt64(-30*sec, 30*sec)
			s.Add(time.Duration(d))
			ref = vc07RefAdd(ref, d)
			maxEnd += 30 * sec
		case 1: // fragment
			f := nondetInt64(20*sec, 400*sec)
			for _, c := range ref {
				vassume(c.en < 3*f)
			}
			s.Fragment(time.Duration(f))
			ref = vc07RefFragment(ref, f, 2)
		case 2:
			s.Unfragment()
			ref = vc07RefUnfragment(ref)
		case 3: // merge a one-cue document read from SRT, same text as the first cue
			m, merr := ReadFromSRT(bytes.NewReader([]byte("1\n00:00:01,000 --> 00:00:02,000\nHello\n")))
			if merr != nil || len(m.Items) != 1 {
				vassert(false, "C07 pipeline: merged document readable")
				return
			}
			st, en := nondetInt64(0, 60*sec), nondetInt64(0, 60*sec)
			vassume(st < en)
			m.Items[0].StartAt, m.Items[0].EndAt = time.Duration(st), time.Duration(en)
			s.Merge(m)
			ref = vc07RefOrder(append(ref, vc07Cue{st, en, "Hello"}))
		case 4:
			s.Optimize()
		case 5: // linear correction t -> 2t + 3s (exact in float64 at these magnitudes)
			s.ApplyLinearCorrection(0, time.Duration(3*sec), time.Duration(10*sec), time.Duration(23*sec))
			for i := range ref {
				ref[i].st, ref[i].en = 2*ref[i].st+3*sec, 2*ref[i].en+3*sec
			}
			maxEnd = 2*maxEnd + 3*sec
		case 6:
			s.Order()
			ref = vc07RefOrder(ref)
		}
	}
	_ = maxEnd
	vassert(len(s.Items) == len(ref), "C07 pipeline: the cue count the composed specifications give")
	if len(s.Items) != len(ref) {
		return
	}
	for i, it := range s.Items {
		vassert(vand(int64(it.StartAt) == ref[i].st, int64(it.EndAt) == ref[i].en), "C07 pipeline: boundaries and order the composed specifications give")
		vassert(vtrimSpaces(vtextOf(it)) == ref[i].text, "C07 pipeline: text the composed specifications give")
	}
	vreach("ops")
	if len(s.Items) == 0 {
		var buf bytes.Buffer
		vassert(s.WriteToSRT(&buf) == ErrNoSubtitlesToWrite, "C07 pipeline: nothing left to write")
		return
	}
	// representative boundaries for the conversion stage (arbitrary boundaries through each writer/reader pair: C01-C05)
	for i, it := range s.Items {
		it.StartAt, it.EndAt = time.Duration(int64(10*i+3)*sec), time.Duration(int64(10*i+8)*sec)
	}
	var buf bytes.Buffer
	var werr, rerr error
	var r *Subtitles
	switch dst {
	case 0:
		werr = s.WriteToSRT(&buf)
	case 1:
		werr = s.WriteToWebVTT(&buf)
	case 2:
		werr = s.WriteToSSA(&buf)
	case 3:
		werr = s.WriteToSTL(&buf)
	case 4:
		werr = vc07WriteTTML(s, &buf)
	}
	vassert(werr == nil, "C07 pipeline: the destination writer succeeds")
	if werr != nil {
		return
	}
	switch dst {
	case 0:
		r, rerr = ReadFromSRT(bytes.NewReader(buf.Bytes()))
	case 1:
		r, rerr = ReadFromWebVTT(bytes.NewReader(buf.Bytes()))
	case 2:
		r, rerr = ReadFromSSA(bytes.NewReader(buf.Bytes()))
	case 3:
		r, rerr = ReadFromSTL(bytes.NewReader(buf.Bytes()), STLOptions{})
	case 4:
		r, rerr = ReadFromTTML(bytes.NewReader(buf.Bytes()))
	}
	vassert(rerr == nil, "C07 pipeline: the destination reads back")
	if rerr != nil {
		return
	}
	vassert(len(r.Items) == len(ref), "C07 pipeline: same number of cues after conversion")
	if len(r.Items) != len(ref) {
		return
	}
	for i, it := range r.Items {
		vassert(int64(it.StartAt) == int64(10*i+3)*sec && int64(it.EndAt) == int64(10*i+8)*sec, "C07 pipeline: same boundaries, same order after conversion")
		if dst != 3 || (s.Metadata != nil && s.Metadata.STLDisplayStandardCode == "0") {
			vassert(vtrimSpaces(vtextOf(it)) == ref[i].text, "C07 pipeline: same text after conversion")
		}
	}
	vreach("end")
}

// C07 H4: the command-line tool (package main in /repo/astisub, executed from SSA with flag registration/parsing
// replaced by flag cells and log.Fatal by an exit; natively: the built binary in a child process). Every sub-command
// on files of every text format and on a transport stream: the written destination, read back, holds what the
// operation's specification gives for the source; missing or invalid arguments end in an error exit and an unknown
// sub-command too.
func VH_C07_CLI() {
	vmode("int")
	sec := int64(time.Second)
	vfs = map[string]*vfile{}
	src := choose(5)
	var in0 string
	switch src {
	case 0:
		in0 = vfsPut("in0.SRT", []byte("1\n00:00:03,000 --> 00:00:13,000\nHello\n\n2\n00:01:00,000 --> 00:01:10,000\nWorld\n"))
	case 1:
		in0 = vfsPut("in0.vtt", []byte("WEBVTT\n\n00:00:03.000 --> 00:00:13.000\nHello\n\n00:01:00.000 --> 00:01:10.000\nWorld\n"))
	case 2:
		in0 = vfsPut("in0.ass", []byte("[Script Info]\nTitle: t\n\n[V4+ Styles]\nFormat: Name, Fontname\nStyle: Default,Arial\n\n[Events]\nFormat: Layer, Start, End, Style, Text\nDialogue: 0,0:00:03.00,0:00:13.00,Default,Hello\nDialogue: 0,0:01:00.00,0:01:10.00,Default,World\n"))
	case 3:
		w := NewSubtitles()
		w.Metadata = &Metadata{Framerate: 25, STLDisplayStandardCode: "0"}
		w.Items = append(w.Items, &Item{StartAt: 3 * time.Second, EndAt: 13 * time.Second, Lines: []Line{{Items: []LineItem{{Text: "Hello"}}}}})
		w.Items = append(w.Items, &Item{StartAt: 60 * time.Second, EndAt: 70 * time.Second, Lines: []Line{{Items: []LineItem{{Text: "World"}}}}})
		var b bytes.Buffer
		if err := w.WriteToSTL(&b); err != nil {
			vassert(false, "C07 cli: source fixture")
			return
		}
		in0 = vfsPut("in0.stl", b.Bytes())
	default:
		// a transport stream carrying page 888 (the page asked for with -p) after another subtitle page of the same magazine
		vtsData, vtsPos = nil, 0
		p := func(s int64) int64 { return s * 90000 }
		vtsData = append(vtsData, vpmtData(100)) // the command has no PID option: the stream's PMT announces the teletext PID
		vtsData = append(vtsData, vpesData(100, p(100), vpes(vheader(0, 8, 8, true, true, 0))))
		vtsData = append(vtsData, vpesData(100, p(103), vpes(vheader(0, 8, 8, true, true, 0), vrow(0, 20, "Hello"))))
		vtsData = append(vtsData, vpesData(100, p(113), vpes(vheader(0, 8, 8, true, true, 0))))
		vtsData = append(vtsData, vpesData(100, p(160), vpes(vheader(0, 8, 8, true, true, 0), vrow(0, 20, "World"))))
		vtsData = append(vtsData, vpesData(100, p(170), vpes(vheader(0, 8, 8, true, true, 0))))
		in0 = vfsPut("in0.ts", vtsBytes())
	}
	ref := []vc07Cue{{3 * sec, 13 * sec, "Hello"}, {60 * sec, 70 * sec, "World"}}
	page := 0
	if src == 4 {
		page = 888
	}
	dst := choose(4)
	out := vtmpdir() + "/out." + []string{"srt", "VTT", "ssa", "stl"}[dst]
	inputs := []string{in0}
	durs := []int64{0, 0, 0, 0, 0, 0} // -a1 -a2 -d1 -d2 -f -s
	cmd := []string{"convert", "sync", "fragment", "unfragment", "merge", "optimize", "apply-linear-correction", "bogus", "convert", "convert"}[choose(10)]
	wantFatal := false
	variant := 0
	switch cmd {
	case "sync":
		// representative shifts (the shift arithmetic over all values: C09 and VH_C07_Pipeline): clamping the first cue,
		// removing it, none, forwards
		// every whole-second shift in [-13s,5s]: clamping the first cue, removing it, none, forwards (shifts at 1 ns: C09)
		d := nondetInt64(-13, 5) * sec
		if dst >= 2 {
			d = []int64{-5, -13, 0, 2}[choose(4)] * sec // SSA/STL destinations: representative shifts (their timestamp arithmetic: C04, C05, C16)
		}
		durs[5] = d
		if d == 0 {
			wantFatal = true
		}
		ref = vc07RefAdd(ref, d)
	case "fragment":
		f := []int64{-1, 0, 30, 45, 65}[choose(5)] * sec
		durs[4] = f
		if f <= 0 {
			wantFatal = true
		} else {
			ref = vc07RefFragment(ref, f, 2)
		}
	case "unfragment":
		ref = vc07RefUnfragment(ref)
	case "merge":
		variant = choose(2)
		if variant == 1 {
			wantFatal = true // a single input
		} else {
			st := []int64{1, 3, 60, 80}[choose(4)] * sec // before, tie with the first cue, tie with the second, after
			// the second document is the longer one and has a cue starting with the first document's first cue: the
			// first input's cues stay ahead on equal starts whatever the sizes
			in1 := vfsPut("in1.srt", []byte("1\n"+vrenderTime(st/1000000, ",", 3)+" --> "+vrenderTime(st/1000000+2000, ",", 3)+"\nHello\n\n"+
				"2\n00:00:03,000 --> 00:00:04,000\nBye\n\n3\n00:01:30,000 --> 00:01:31,000\nLate\n"))
			inputs = append(inputs, in1)
			ref = vc07RefOrder(append(ref, vc07Cue{st, st + 2*sec, "Hello"}, vc07Cue{3 * sec, 4 * sec, "Bye"}, vc07Cue{90 * sec, 91 * sec, "Late"}))
		}
	case "apply-linear-correction":
		variant = choose(5)
		durs[0], durs[1], durs[2], durs[3] = 10*sec, 20*sec, 23*sec, 43*sec // t -> 2t + 3s
		if variant > 0 {
			durs[variant-1] = 0 // each of the four durations is required
			wantFatal = true
		} else {
			for i := range ref {
				ref[i].st, ref[i].en = 2*ref[i].st+3*sec, 2*ref[i].en+3*sec
			}
		}
	case "bogus":
		wantFatal = true
	}
	switch cmd {
	case "convert":
		// the second and third "convert" entries: no output path / no input path
	}
	vreach("args")
	fatal := vcliRun(cmd, inputs, out, page, durs)
	vassert(fatal == wantFatal, "C07 cli: error exit exactly for missing or invalid arguments")
	if fatal || wantFatal {
		vreach("fatal")
		return
	}
	data, ok := vfsGet(out)
	vassert(ok, "C07 cli: the destination file is written")
	if !ok {
		return
	}
	if len(ref) == 0 {
		return
	}
	var r *Subtitles
	var rerr error
	switch dst {
	case 0:
		r, rerr = ReadFromSRT(bytes.NewReader(data))
	case 1:
		r, rerr = ReadFromWebVTT(bytes.NewReader(data))
	case 2:
		r, rerr = ReadFromSSA(bytes.NewReader(data))
	case 3:
		r, rerr = ReadFromSTL(bytes.NewReader(data), STLOptions{})
	}
	vassert(rerr == nil, "C07 cli: the destination reads back")
	if rerr != nil {
		return
	}
	vassert(len(r.Items) == len(ref), "C07 cli: the cue count the sub-command's specification gives")
	if len(r.Items) != len(ref) {
		return
	}
	for i, it := range r.Items {
		vassert(int64(it.StartAt) == ref[i].st, "C07 cli: starts and order the sub-command's specification gives")
		vassert(int64(it.EndAt) == ref[i].en, "C07 cli: ends the sub-command's specification gives")
		if dst != 3 || src == 3 {
			vassert(vtrimSpaces(vtextOf(it)) == ref[i].text, "C07 cli: text")
		}
	}
	vreach("end")
}

// missing -i / -o
func VH_C07_CLIArgs() {
	vfs = map[string]*vfile{}
	in0 := vfsPut("in0.srt", []byte("1\n00:00:03,000 --> 00:00:13,000\nHello\n"))
	out := vtmpdir() + "/out.srt"
	durs := []int64{0, 0, 0, 0, 0, 0}
	switch choose(4) {
	case 0:
		vassert(vcliRun("convert", nil, out, 0, durs), "C07 cli: no input path is an error exit")
	case 1:
		vassert(vcliRun("convert", []string{in0}, "", 0, durs), "C07 cli: no output path is an error exit")
	case 2:
		vassert(vcliRun("convert", []string{vtmpdir() + "/missing.srt"}, out, 0, durs), "C07 cli: an unreadable input is an error exit")
	default:
		vassert(vcliRun("convert", []string{in0}, vtmpdir()+"/out.xyz", 0, durs), "C07 cli: an unsupported destination extension is an error exit")
	}
	vreach("end")
}
