package astisub

import (
	"bytes"
	"io"
	"time"
)

// provider for (*os.File).Read in the engine: an empty file
func vstubFileRead(p []byte) (int, error)  { return 0, io.EOF }
func vstubFileWrite(p []byte) (int, error) { return len(p), nil }

// C07 H1: the codec is chosen by the lower-cased file extension alone; unsupported extensions give the
// invalid-extension error; an empty list gives the nothing-to-write error from every writer.
func VH_C07_Dispatch() {
	n := 2 + choose(3)
	ext := vsymstr(n, "sSrRtTaAlLmMvV")
	name := "dir.d/file.name." + ext
	vstubFail = false
	vttmlDoc = nil
	vtsData, vtsPos = nil, 0
	vreach("pre")
	_, err := Open(Options{Filename: name})
	low := ""
	for i := 0; i < len(ext); i++ {
		c := ext[i]
		if c >= 'A' && c <= 'Z' {
			c += 'a' - 'A'
		}
		low += string([]byte{c})
	}
	supportedIn := vor(vor(veqstr(low, "srt"), veqstr(low, "ssa")), vor(vor(veqstr(low, "ass"), veqstr(low, "stl")), vor(vor(veqstr(low, "ts"), veqstr(low, "ttml")), veqstr(low, "vtt"))))
	vassert(supportedIn == (err != ErrInvalidExtension), "C07 Open: reader chosen by the case-insensitive extension, anything else is the invalid-extension error")
	s := NewSubtitles()
	s.Items = append(s.Items, &Item{EndAt: time.Second, Lines: []Line{{Items: []LineItem{{Text: "a"}}}}})
	werr := s.Write(name)
	supportedOut := vor(vor(veqstr(low, "srt"), veqstr(low, "ssa")), vor(vor(veqstr(low, "ass"), veqstr(low, "stl")), vor(veqstr(low, "ttml"), veqstr(low, "vtt"))))
	vassert(supportedOut == (werr != ErrInvalidExtension), "C07 Write: writer chosen by the case-insensitive extension, anything else is the invalid-extension error")
	vreach("end")
}

func VH_C07_NothingToWrite() {
	s := NewSubtitles()
	var b bytes.Buffer
	vassert(s.WriteToSRT(&b) == ErrNoSubtitlesToWrite && s.WriteToSSA(&b) == ErrNoSubtitlesToWrite && s.WriteToSTL(&b) == ErrNoSubtitlesToWrite &&
		s.WriteToTTML(&b) == ErrNoSubtitlesToWrite && s.WriteToWebVTT(&b) == ErrNoSubtitlesToWrite, "C07 an empty cue list yields the nothing-to-write error from every writer")
	vassert(b.Len() == 0, "C07 nothing is written for an empty list")
	vreach("end")
}

// vc07Source reads a small two-cue document of the given source format through the real reader, so that the value has
// exactly the optional parts that reader sets (nil metadata, zero frame rate, nil maps, inline-style presence ...).
func vc07Source(src int, s1, s2 int64) (*Subtitles, error) {
	d1, d2 := string([]byte{byte('0' + s1)}), string([]byte{byte('0' + s2)})
	switch src {
	case 0:
		return ReadFromSRT(bytes.NewReader([]byte("1\n00:00:0" + d1 + ",000 --> 00:00:1" + d1 + ",000\nHello\n\n2\n00:01:0" + d2 + ",000 --> 00:01:1" + d2 + ",000\nWorld\n")))
	case 1:
		return ReadFromWebVTT(bytes.NewReader([]byte("WEBVTT\n\n00:00:0" + d1 + ".000 --> 00:00:1" + d1 + ".000\nHello\n\n00:01:0" + d2 + ".000 --> 00:01:1" + d2 + ".000\nWorld\n")))
	case 2:
		return ReadFromSSA(bytes.NewReader([]byte("[Script Info]\nTitle: t\n\n[V4 Styles]\nFormat: Name, Fontname\nStyle: Default,Arial\n\n[Events]\nFormat: Marked, Start, End, Style, Text\nDialogue: Marked=0,0:00:0" + d1 + ".00,0:00:1" + d1 + ".00,Default,Hello\nDialogue: Marked=0,0:01:0" + d2 + ".00,0:01:1" + d2 + ".00,Default,World\n")))
	case 3:
		w := NewSubtitles()
		w.Metadata = &Metadata{Framerate: 25, STLDisplayStandardCode: "0"}
		w.Items = append(w.Items, &Item{StartAt: time.Duration(s1) * time.Second, EndAt: time.Duration(10+s1) * time.Second, Lines: []Line{{Items: []LineItem{{Text: "Hello"}}}}})
		w.Items = append(w.Items, &Item{StartAt: time.Duration(60+s2) * time.Second, EndAt: time.Duration(70+s2) * time.Second, Lines: []Line{{Items: []LineItem{{Text: "World"}}}}})
		var buf bytes.Buffer
		if err := w.WriteToSTL(&buf); err != nil {
			return nil, err
		}
		return ReadFromSTL(bytes.NewReader(buf.Bytes()), STLOptions{})
	case 4:
		doc := &TTMLIn{Framerate: 0, Lang: "en"}
		doc.Subtitles = append(doc.Subtitles, TTMLInSubtitle{Begin: vdur(s1 * 1000000000), End: vdur((10 + s1) * 1000000000)})
		doc.Subtitles = append(doc.Subtitles, TTMLInSubtitle{Begin: vdur((60 + s2) * 1000000000), End: vdur((70 + s2) * 1000000000)})
		vttmlDoc, vttmlItems, vttmlItemsPos = doc, []TTMLInItems{{{Text: "Hello"}}, {{Text: "World"}}}, 0
		return ReadFromTTML(bytes.NewReader(nil))
	default:
		vtsData, vtsPos = nil, 0
		p := func(sec int64) int64 { return sec * 90000 }
		vtsData = append(vtsData, vpesData(100, p(100), vpes(vheader(0, 8, 8, true, true, 0))))
		vtsData = append(vtsData, vpesData(100, p(100+s1), vpes(vheader(0, 8, 8, true, true, 0), vrow(0, 20, "Hello"))))
		vtsData = append(vtsData, vpesData(100, p(110+s1), vpes(vheader(0, 8, 8, true, true, 0))))
		vtsData = append(vtsData, vpesData(100, p(160+s2), vpes(vheader(0, 8, 8, true, true, 0), vrow(0, 20, "World"))))
		vtsData = append(vtsData, vpesData(100, p(170+s2), vpes(vheader(0, 8, 8, true, true, 0))))
		return ReadFromTeletext(bytes.NewReader(vtsBytes()), TeletextOptions{PID: 100, Page: 888})
	}
}

// C07 H2: any source shape -> any destination writer -> destination reader: same number of cues in the same order,
// same boundaries (whole seconds here, representable in every format), same text.
func VH_C07_Convert() {
	vmode("int")
	src := choose(6)
	dst := choose(4) // srt, vtt, ssa, stl  (ttml destination: VH_C07_ConvertToTTML)
	s1, s2 := []int64{3, 7}[choose(2)], []int64{0, 9}[choose(2)] // concrete boundaries: the timestamp arithmetic itself is C16/C01/C02/C04/C05
	s, err := vc07Source(src, s1, s2)
	vassert(err == nil && len(s.Items) == 2, "C07 source document readable")
	if err != nil || len(s.Items) != 2 {
		return
	}
	base := int64(0)
	if src == 5 {
		base = 0 // teletext times are relative to the first presentation time
	}
	want := [][2]int64{{int64(s.Items[0].StartAt), int64(s.Items[0].EndAt)}, {int64(s.Items[1].StartAt), int64(s.Items[1].EndAt)}}
	_ = base
	vreach("source")
	var buf bytes.Buffer
	var werr error
	switch dst {
	case 0:
		werr = s.WriteToSRT(&buf)
	case 1:
		werr = s.WriteToWebVTT(&buf)
	case 2:
		werr = s.WriteToSSA(&buf)
	case 3:
		werr = s.WriteToSTL(&buf)
	}
	vassert(werr == nil, "C07 conversion: the destination writer succeeds")
	if werr != nil {
		return
	}
	var r *Subtitles
	var rerr error
	switch dst {
	case 0:
		r, rerr = ReadFromSRT(bytes.NewReader(buf.Bytes()))
	case 1:
		r, rerr = ReadFromWebVTT(bytes.NewReader(buf.Bytes()))
	case 2:
		r, rerr = ReadFromSSA(bytes.NewReader(buf.Bytes()))
	case 3:
		r, rerr = ReadFromSTL(bytes.NewReader(buf.Bytes()), STLOptions{})
	}
	vassert(rerr == nil, "C07 conversion: the destination reads back")
	if rerr != nil {
		return
	}
	vassert(len(r.Items) == 2, "C07 conversion: same number of cues")
	if len(r.Items) != 2 {
		return
	}
	for c := 0; c < 2; c++ {
		vassert(int64(r.Items[c].StartAt) == want[c][0] && int64(r.Items[c].EndAt) == want[c][1], "C07 conversion: same boundaries, same order")
		if dst != 3 || (s.Metadata != nil && s.Metadata.STLDisplayStandardCode == "0") {
			vassert(vtrimSpaces(vtextOf(r.Items[c])) == []string{"Hello", "World"}[c], "C07 conversion: same text")
		}
	}
	vreach("end")
}
