package astisub

import (
	"bytes"
	"time"
)

// C20: independent calls are safe to run concurrently.  No interleaving is executed; instead the engine checks, on
// every feasible path of every entry point below, that no store targets an object reachable from a package-level
// variable of astisub (other than the documented clock Now): a call that writes no shared memory cannot race with
// another call and returns what it returns alone.  vfreeze() marks the shared objects after package initialisation.
func vc20Doc(format int) []byte {
	x := string([]byte{nondetByteIn("0123456789")})
	switch format {
	case 0:
		return []byte("1\n00:00:0" + x + ",000 --> 00:00:1" + x + ",000\n<i>Hello</i> &amp; <b>you</b>\n\n")
	case 1:
		return []byte("WEBVTT\n\nRegion: id=r lines=3\n\nSTYLE\n::cue { color: red }\n\nNOTE hi\n\n1\n00:00:0" + x + ".000 --> 00:00:1" + x + ".000 region:r align:left\n<v Bob>Hello <b>you</b>\n")
	default:
		return []byte("[Script Info]\nTitle: t\n\n[V4 Styles]\nFormat: Name, Fontname, Bold, PrimaryColour\nStyle: Default,Arial,-1,&H00ff00ff\n\n[Events]\nFormat: Marked, Start, End, Style, Text\nDialogue: Marked=0,0:00:0" + x + ".00,0:00:1" + x + ".00,Default,{\\i1}Hello\\Nyou\n")
	}
}

func VH_C20_Readers() {
	vmode("int")
	format := choose(3)
	doc := vc20Doc(format)
	vfreeze()
	var s *Subtitles
	var err error
	switch format {
	case 0:
		s, err = ReadFromSRT(bytes.NewReader(doc))
	case 1:
		s, err = ReadFromWebVTT(bytes.NewReader(doc))
	default:
		s, err = ReadFromSSA(bytes.NewReader(doc))
	}
	vassert(err == nil && len(s.Items) == 1, "C20 fixture parses")
	vreach("end")
}

func VH_C20_WritersAndTransforms() {
	vmode("int")
	s := vc19ListK(2, 1, 0)
	s.Items[0].StartAt = time.Duration(nondetInt64(0, 9)) * time.Second
	s.Items[0].EndAt = s.Items[0].StartAt + 10*time.Second
	s.Items = append(s.Items, &Item{StartAt: 30 * time.Second, EndAt: 31 * time.Second, Lines: []Line{{Items: []LineItem{{Text: "b"}}}}})
	op := choose(12)
	op2 := choose(13) // a second call on the same list (12: none): state a call leaves in the list must not alias package state
	if choose(2) == 1 {
		s.Metadata.SSAScriptType = "v4.00+"
	}
	vfreeze()
	apply := func(op int) {
		var buf bytes.Buffer
		switch op {
		case 0:
			vassert(s.WriteToSRT(&buf) == nil, "C20 srt write")
		case 1:
			vassert(s.WriteToWebVTT(&buf) == nil, "C20 vtt write")
		case 2:
			vassert(s.WriteToSSA(&buf) == nil, "C20 ssa write")
		case 3:
			vassert(s.WriteToTTML(&buf) == nil, "C20 ttml write")
		case 4:
			s.Add(time.Second)
		case 5:
			s.Fragment(7 * time.Second)
		case 6:
			s.Unfragment()
		case 7:
			o := vc19ListK(1, 1, 1)
			s.Merge(o)
		case 8:
			s.Optimize()
		case 9:
			s.ApplyLinearCorrection(0, time.Second, 10*time.Second, 12*time.Second)
		case 10:
			s.ForceDuration(40*time.Second, true)
		case 11:
			s.RemoveStyling()
			s.Order()
		}
	}
	apply(op)
	apply(op2)
	vreach("end")
}

// STL and teletext code paths (bit-vector encoding, concrete times).
func VH_C20_STL() {
	s := vc19ListK(0, 0, 0)
	s.Items[0].Lines = []Line{{Items: []LineItem{{Text: "Héllo", InlineStyle: &StyleAttributes{STLItalics: vboolp(true)}}, {Text: " wörld"}}}}
	vfreeze()
	var buf bytes.Buffer
	vassert(s.WriteToSTL(&buf) == nil, "C20 stl write")
	data := buf.Bytes()
	data[1024+8] = byte(nondetInt64(0, 24))
	r, err := ReadFromSTL(bytes.NewReader(data), STLOptions{})
	vassert(err == nil && len(r.Items) == 1, "C20 stl read")
	vreach("end")
}

// C20: every call returns what it returns when run alone - no state is carried from one call to the next.
// STL reader: document B is read alone, then after an arbitrary document A (symbolic text bytes over letters,
// diacritics, control codes), and must give the same cues.
func VH_C20_STLReadHistory() {
	mk := func(text []byte) []byte {
		s := NewSubtitles()
		s.Items = append(s.Items, &Item{StartAt: time.Second, EndAt: 2 * time.Second, Lines: []Line{{Items: []LineItem{{Text: "x"}}}}})
		var buf bytes.Buffer
		vassert(s.WriteToSTL(&buf) == nil, "C20 stl fixture written")
		d := buf.Bytes()
		copy(d[1024+16:], text)
		return d
	}
	docB := mk([]byte{0x0b, 0x0b, 'e', 'a', 'u', 0x0a, 0x0a})
	n := vbound("textbytes", 3, 4)
	ta := []byte{0x0b, 0x0b}
	for i := 0; i < n; i++ {
		ta = append(ta, nondetByteIn("ae\xc2\xc8\x8a\x8f\x0a\x80"))
	}
	docA := mk(ta)
	r1, e1 := ReadFromSTL(bytes.NewReader(docB), STLOptions{})
	vassert(e1 == nil && len(r1.Items) == 1, "C20 stl: B alone")
	t1 := vtextOf(r1.Items[0])
	vreach("alone")
	_, _ = ReadFromSTL(bytes.NewReader(docA), STLOptions{})
	r2, e2 := ReadFromSTL(bytes.NewReader(docB), STLOptions{})
	vassert(e2 == nil && len(r2.Items) == 1, "C20 stl: B after A")
	vassert(vtextOf(r2.Items[0]) == t1, "C20 history: a call returns what it returns when run alone")
	vreach("end")
}

// The readers that delegate to another layer (TTML: what ReadFromTTML does with the decoded value; teletext: what
// ReadFromTeletext does with the demultiplexed data): no store into package-level state, and a document read after
// another one gives what it gives alone.
func VH_C20_DelegatedReaders() {
	vmode("int")
	if choose(2) == 0 {
		k := choose(vbound("shapes", 8, 24))
		doc, items, _, _, _ := vc03Doc(k, 5000000000)
		vttmlDoc, vttmlItems, vttmlItemsPos = doc, []TTMLInItems{items}, 0
		vfreeze()
		r1, e1 := ReadFromTTML(bytes.NewReader(vrenderTTML(doc, items)))
		vreach("ttml alone")
		// another document in between
		doc2, items2, _, _, _ := vc03Doc(k+1, 7000000000)
		vttmlDoc, vttmlItems, vttmlItemsPos = doc2, []TTMLInItems{items2}, 0
		_, _ = ReadFromTTML(bytes.NewReader(vrenderTTML(doc2, items2)))
		vttmlDoc, vttmlItems, vttmlItemsPos = doc, []TTMLInItems{items}, 0
		r2, e2 := ReadFromTTML(bytes.NewReader(vrenderTTML(doc, items)))
		vassert((e1 == nil) == (e2 == nil), "C20 history: a call fails exactly when it fails alone")
		if e1 == nil && e2 == nil {
			vassert(vdeepequal(r1, r2), "C20 history: a call returns what it returns when run alone")
		}
		vreach("end")
		return
	}
	k := choose(vbound("schedules", 4, 16))
	t := []int64{90000, 180000, 270000, 360000}
	vc06Schedule(k, t)
	vfreeze()
	r1, e1 := ReadFromTeletext(bytes.NewReader(vtsBytes()), TeletextOptions{PID: 100, Page: 888})
	vreach("teletext alone")
	vc06Schedule(k+1, []int64{1000, 91000, 181000, 271000})
	_, _ = ReadFromTeletext(bytes.NewReader(vtsBytes()), TeletextOptions{PID: 100, Page: 888})
	vc06Schedule(k, t)
	r2, e2 := ReadFromTeletext(bytes.NewReader(vtsBytes()), TeletextOptions{PID: 100, Page: 888})
	vassert((e1 == nil) == (e2 == nil), "C20 history: a call fails exactly when it fails alone")
	if e1 == nil && e2 == nil {
		vassert(vdeepequal(r1, r2), "C20 history: a call returns what it returns when run alone")
	}
	vreach("end")
}
