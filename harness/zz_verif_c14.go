package astisub

import "time"

// C14 ForceDuration.  BV64.  Precondition (from the statement): start-ordered, non-decreasing ends, d >= 1ms.
func VH_C14_ForceDuration() {
	n := choose(vbound("cues+1", 4, 6)) // 0..3 / 0..5 cues
	s := &Subtitles{}
	type pre struct {
		p      *Item
		st, en int64
	}
	var in []pre
	var pst, pen int64
	for i := 0; i < n; i++ {
		st := nondetInt64(0, 1<<46)
		en := nondetInt64(0, 1<<46)
		vassume(st <= en)
		if i > 0 {
			vassume(pst <= st)
			vassume(pen <= en)
		}
		pst, pen = st, en
		it := &Item{StartAt: time.Duration(st), EndAt: time.Duration(en), Index: i + 1, Lines: []Line{{Items: []LineItem{{Text: "x"}}}}}
		s.Items = append(s.Items, it)
		in = append(in, pre{it, st, en})
	}
	d := nondetInt64(int64(time.Millisecond), 1<<46)
	filler := nondetBool()
	vreach("pre")
	s.ForceDuration(time.Duration(d), filler) // the real code

	if n > 0 && in[n-1].en == d {
		// already lasting exactly d: unchanged
		vassert(len(s.Items) == n, "C14 exact duration: list unchanged (length)")
		for i, c := range in {
			vassert(s.Items[i] == c.p && int64(c.p.StartAt) == c.st && int64(c.p.EndAt) == c.en, "C14 exact duration: cue unchanged")
		}
		vreach("exact")
		return
	}
	k := 0
	lastEnd := int64(-1)
	for _, c := range in {
		if c.st >= d {
			continue // starts at or after d: removed
		}
		vassert(k < len(s.Items), "C14 kept cue present")
		vassert(s.Items[k] == c.p, "C14 kept cue identity and order")
		want := c.en
		if want > d {
			want = d
		}
		vassert(int64(s.Items[k].StartAt) == c.st, "C14 start untouched")
		vassert(int64(s.Items[k].EndAt) == want, "C14 end clipped to d only when after d")
		vassert(s.Items[k].Index == c.p.Index && len(s.Items[k].Lines) == 1, "C14 content untouched")
		lastEnd = want
		k++
	}
	if filler && lastEnd < d {
		vassert(len(s.Items) == k+1, "C14 filler appended")
		fi := s.Items[k]
		vassert(int64(fi.StartAt) == d-int64(time.Millisecond) && int64(fi.EndAt) == d, "C14 filler is [d-1ms,d)")
		vassert(len(fi.Lines) == 1 && len(fi.Lines[0].Items) == 1 && fi.Lines[0].Items[0].Text != "", "C14 filler has placeholder text")
		vassert(int64(s.Duration()) == d, "C14 duration is exactly d with filler")
		vreach("filler")
	} else {
		vassert(len(s.Items) == k, "C14 nothing appended")
		vreach("nofiller")
	}
	vreach("end")
}
