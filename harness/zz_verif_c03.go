package astisub

import (
	"bytes"
	"encoding/xml"
	"io"
	"time"
)

func vdig() byte { return nondetByteIn("0123456789") }

// C03 H1a: clock time without frames: hh:mm:ss and hh:mm:ss.f{1,3}, all digits symbolic.  INT encoding.
func VH_C03_ClockTime() {
	vmode("int")
	nfrac := choose(4) // 0: no fraction
	h1, h2, m1, m2, s1, s2 := vdig(), vdig(), nondetByteIn("012345"), vdig(), nondetByteIn("012345"), vdig()
	txt := string([]byte{h1, h2, ':', m1, m2, ':', s1, s2})
	want := (int64(h1-'0')*10+int64(h2-'0'))*3600 + (int64(m1-'0')*10+int64(m2-'0'))*60 + int64(s1-'0')*10 + int64(s2-'0')
	want *= 1000000000
	if nfrac > 0 {
		txt += "."
		scale := int64(100000000)
		for k := 0; k < nfrac; k++ {
			d := vdig()
			txt += string([]byte{d})
			want += int64(d-'0') * scale
			scale /= 10
		}
	}
	var d TTMLInDuration
	err := d.UnmarshalText([]byte(txt))
	vassert(err == nil, "C03 clock time: accepted")
	d.framerate = []int{0, 25, 30}[choose(3)]
	d.tickrate = []int{0, 10000000}[choose(2)]
	vassert(int64(d.duration()) == want, "C03 clock time (with or without a 1-3 digit fraction) resolves to the instant it denotes")
	vreach("end")
}

// C03 H1b: clock time with frames hh:mm:ss:ff at the document's frame rate; exact IEEE encoding (bit-vectors).
func VH_C03_ClockTimeFrames() {
	vsolver("cvc5")
	fr := []int{24, 25, 30, 50, 60}[choose(5)]
	f1, f2 := nondetByteIn("012345"), vdig()
	frames := int64(f1-'0')*10 + int64(f2-'0')
	vassume(frames < int64(fr))
	s2 := vdig()
	txt := "01:02:0" + string([]byte{s2}) + ":" + string([]byte{f1, f2})
	var d TTMLInDuration
	err := d.UnmarshalText([]byte(txt))
	vassert(err == nil, "C03 frames: accepted")
	d.framerate = fr
	got := int64(d.duration())
	base := (3720 + int64(s2-'0')) * 1000000000
	// exact instant: base + frames/fr seconds; got must be its floor or ceiling (exact when it is a whole number of ns)
	num := frames * 1000000000
	lo := base + num/int64(fr)
	hi := lo
	if num%int64(fr) != 0 {
		hi = lo + 1
	}
	vassert(vand(got >= lo, got <= hi), "C03 clock time with frames resolves to the instant it denotes at the document frame rate")
	vreach("end")
}

// C03 H1c: offset times N(.F{1,3})?{h,m,s,ms}, Nf, Nt; exact IEEE encoding.
func VH_C03_OffsetTime() {
	vsolver("cvc5")
	unit := []int{2, 3, 4, 5, 1, 0}[choose(vbound("units", 4, 6))] // s ms f t | m h
	ni := 1 + choose(vbound("intdigits", 1, 2))
	nf := 0
	if unit < 4 {
		nf = choose(vbound("fracdigits+1", 4, 4))
	}
	var acc int64
	txt := ""
	for k := 0; k < ni; k++ {
		d := vdig()
		txt += string([]byte{d})
		acc = acc*10 + int64(d-'0')
	}
	den := int64(1)
	if nf > 0 {
		txt += "."
		for k := 0; k < nf; k++ {
			d := vdig()
			txt += string([]byte{d})
			acc = acc*10 + int64(d-'0')
			den *= 10
		}
	}
	txt += []string{"h", "m", "s", "ms", "f", "t"}[unit]
	var d TTMLInDuration
	err := d.UnmarshalText([]byte(txt))
	vassert(err == nil, "C03 offset time: accepted")
	d.framerate, d.tickrate = 25, 1000
	if unit == 4 {
		d.framerate = []int{25, 30}[choose(2)]
	}
	if unit == 5 {
		d.tickrate = []int{1000, 10000000, 90000}[choose(3)]
	}
	got := int64(d.duration())
	// exact value = acc * mul / (den * div) nanoseconds
	var mul, div int64
	switch unit {
	case 0:
		mul, div = 3600000000000, 1
	case 1:
		mul, div = 60000000000, 1
	case 2:
		mul, div = 1000000000, 1
	case 3:
		mul, div = 1000000, 1
	case 4:
		mul, div = 1000000000, int64(d.framerate)
	case 5:
		mul, div = 1000000000, int64(d.tickrate)
	}
	// got is floor or ceiling of num/dd  <=>  |got*dd - num| < dd  (and then got*dd == num whenever dd divides num)
	num := acc * mul
	dd := den * div
	vassert(vand(got*dd-num < dd, num-got*dd < dd), "C03 offset time resolves to the instant it denotes (exactly when that is a whole number of ns)")
	vreach("end")
}

// ---- post-decode logic: the XML layer is replaced by a provider that fills an arbitrary decoded value ----

var vttmlDoc *TTMLIn
var vttmlItems []TTMLInItems
var vttmlItemsPos int

var vxmlFault bool // the XML layer reports a failure of the underlying stream (C18)

func vstubXMLDecode(v interface{}) error {
	if vxmlFault {
		return verrFault
	}
	switch t := v.(type) {
	case *TTMLIn:
		if vttmlDoc == nil {
			return io.EOF
		}
		*t = *vttmlDoc
	case *TTMLInItems:
		*t = vttmlItems[vttmlItemsPos]
		vttmlItemsPos++
	}
	return nil
}

func vdur(ns int64) *TTMLInDuration { return &TTMLInDuration{d: time.Duration(ns)} }

// C03 H3: everything ReadFromTTML does after decoding: style inheritance links, region/style references, absent
// begin/end, lines split at <br/>, metadata and language mapping.
// vc03Doc: decoded-value model number k of a TTML document.
func vc03Doc(k int, st1 int64) (*TTMLIn, TTMLInItems, []string, []string, TTMLInSubtitle) {
	ns := 1 + k%3
	doc := &TTMLIn{Framerate: 25, Lang: []string{"fr", "en-US", "xx", "no", "ja"}[k%5], Metadata: TTMLInMetadata{Title: "T", Copyright: "C"}}
	ids := []string{"s0", "s1", "s2"}
	parent := make([]string, ns)
	for i := 0; i < ns; i++ {
		st := TTMLInStyle{}
		st.ID = ids[i]
		c := "#ff0000"
		st.Color = &c
		// parent configuration (-1 none, -2 undefined id, otherwise index of the parent): chains, shared parents,
		// forward references, undefined parents
		cfgs := [][3]int{{-1, -1, -1}, {-1, 0, 0}, {1, -1, 0}, {-1, 2, 0}, {2, 2, -1}, {-1, 0, 1}, {-2, -1, -1}, {1, 2, -1}}
		pc := cfgs[(k/3)%len(cfgs)][i]
		if pc >= ns {
			pc = 0
		}
		switch {
		case pc == -2:
			parent[i] = "undefined"
		case pc >= 0 && pc != i:
			parent[i] = ids[pc]
		}
		st.Style = parent[i]
		doc.Styles = append(doc.Styles, st)
	}
	reg := TTMLInRegion{}
	reg.ID = "r0"
	reg.Style = ids[k%ns]
	doc.Regions = append(doc.Regions, reg)
	sub := TTMLInSubtitle{Begin: vdur(st1), End: vdur(st1 + 1000000000), Region: "r0", Style: ids[(k+1)%ns]}
	if k%5 == 4 {
		sub.Begin = nil // a paragraph without begin
	}
	if k%5 == 3 {
		sub.End = nil
	}
	doc.Subtitles = append(doc.Subtitles, sub)
	// items of the paragraph: text, a br element, a span with a style and an embedded line break
	items := TTMLInItems{{Text: "first"}, {XMLName: xml.Name{Local: "br"}}, {Text: "second\nthird", XMLName: xml.Name{Local: "span"}, Style: ids[0]}}
	return doc, items, ids[:ns], parent, sub
}

func VH_C03_PostDecode() {
	vmode("int")
	k := choose(vbound("shapes", 24, 48))
	st1 := nondetInt64(0, 3600) * 1000000000
	doc, items, ids, parent, sub := vc03Doc(k, st1)
	ns := len(ids)
	vttmlDoc, vttmlItems, vttmlItemsPos = doc, []TTMLInItems{items}, 0
	undefined := false
	for _, p := range parent {
		if p == "undefined" {
			undefined = true
		}
	}
	vreach("pre")
	// natively (replay) the rendered document goes through the real XML decoder; in the engine the decoder is replaced
	// by the provider above, which hands over the same model
	s, err := ReadFromTTML(bytes.NewReader(vrenderTTML(doc, items)))
	if undefined {
		vassert(err != nil, "C03 post-decode: a reference to an undefined style is an error")
		vreach("undefined")
		return
	}
	if sub.Begin == nil || sub.End == nil {
		// a paragraph without begin/end is outside the property (paragraphs with begin/end); it must not crash (C08)
		vreach("nobegin")
		return
	}
	vassert(err == nil, "C03 post-decode: well-formed document accepted")
	if err != nil {
		return
	}
	for i := 0; i < ns; i++ {
		stl := s.Styles[ids[i]]
		vassert(stl != nil, "C03 post-decode: style defined")
		if stl == nil {
			continue
		}
		if parent[i] == "" {
			vassert(stl.Style == nil, "C03 post-decode: style without parent")
		} else {
			vassert(stl.Style != nil && stl.Style == s.Styles[parent[i]], "C03 post-decode: every style with a parent attribute is linked to exactly that parent")
		}
		vassert(stl.InlineStyle != nil && stl.InlineStyle.TTMLColor != nil && *stl.InlineStyle.TTMLColor == "#ff0000", "C03 post-decode: inline tts attributes")
	}
	vassert(s.Regions["r0"] != nil && s.Regions["r0"].Style == s.Styles[ids[k%ns]], "C03 post-decode: region and its style reference")
	vassert(len(s.Items) == 1, "C03 post-decode: one cue per paragraph")
	if len(s.Items) != 1 {
		return
	}
	it := s.Items[0]
	vassert(int64(it.StartAt) == st1 && int64(it.EndAt) == st1+1000000000, "C03 post-decode: begin/end")
	vassert(it.Region == s.Regions["r0"] && it.Style == s.Styles[ids[(k+1)%ns]], "C03 post-decode: paragraph region/style references")
	vassert(len(it.Lines) == 3, "C03 post-decode: lines split at every br, between and inside spans")
	if len(it.Lines) == 3 {
		vassert(vtextOf(&Item{Lines: it.Lines[:1]}) == "first" && vtextOf(&Item{Lines: it.Lines[1:2]}) == "second" && vtextOf(&Item{Lines: it.Lines[2:]}) == "third", "C03 post-decode: line texts")
		vassert(it.Lines[1].Items[0].Style == s.Styles[ids[0]] && it.Lines[2].Items[0].Style == s.Styles[ids[0]], "C03 post-decode: run style references")
	}
	wantLang := map[string]string{"fr": LanguageFrench, "en-US": LanguageEnglish, "xx": "", "no": LanguageNorwegian, "ja": LanguageJapanese}[doc.Lang]
	vassert(s.Metadata != nil && s.Metadata.Title == "T" && s.Metadata.TTMLCopyright == "C" && s.Metadata.Language == wantLang && s.Metadata.Framerate == 25, "C03 post-decode: title, copyright, language")
	vreach("end")
}

// vrenderTTML renders the decoded-value model as a TTML document (used by native replays, where the real XML decoder runs).
func vrenderTTML(doc *TTMLIn, items TTMLInItems) []byte {
	attr := func(k, v string) string {
		if v == "" {
			return ""
		}
		return " " + k + "=\"" + v + "\""
	}
	x := "<tt xmlns=\"http://www.w3.org/ns/ttml\" xmlns:tts=\"http://www.w3.org/ns/ttml#styling\" xmlns:ttp=\"http://www.w3.org/ns/ttml#parameter\" xml:lang=\"" + doc.Lang + "\" ttp:frameRate=\"25\">"
	x += "<head><metadata><title xmlns=\"http://www.w3.org/ns/ttml#metadata\">" + doc.Metadata.Title + "</title><copyright xmlns=\"http://www.w3.org/ns/ttml#metadata\">" + doc.Metadata.Copyright + "</copyright></metadata><styling>"
	for _, st := range doc.Styles {
		x += "<style" + attr("xml:id", st.ID) + attr("style", st.Style) + attr("tts:color", *st.Color) + "/>"
	}
	x += "</styling><layout>"
	for _, r := range doc.Regions {
		x += "<region" + attr("xml:id", r.ID) + attr("style", r.Style) + "/>"
	}
	x += "</layout></head><body><div>"
	for _, sub := range doc.Subtitles {
		x += "<p" + attr("region", sub.Region) + attr("style", sub.Style)
		if sub.Begin != nil {
			x += attr("begin", formatDuration(sub.Begin.d, ".", 3))
		}
		if sub.End != nil {
			x += attr("end", formatDuration(sub.End.d, ".", 3))
		}
		x += ">"
		for _, it := range items {
			switch it.XMLName.Local {
			case "br":
				x += "<br/>"
			case "span":
				txt := ""
				for _, ch := range it.Text {
					if ch == '\n' {
						txt += "<br/>"
					} else {
						txt += string(ch)
					}
				}
				x += "<span" + attr("style", it.Style) + ">" + txt + "</span>"
			default:
				x += it.Text
			}
		}
		x += "</p>"
	}
	x += "</div></body></tt>"
	return []byte(x)
}

// C03 H1d: tick and frame counts over their whole practical range (counts as they are after parsing): the resolved
// instant is within one nanosecond of count/rate seconds.  INT encoding with relaxed floats (a gross error such as an
// integer overflow is found; sub-nanosecond exactness for few-digit counts is the business of VH_C03_OffsetTime).
func VH_C03_TicksAndFramesRange() {
	vmode("int")
	var d TTMLInDuration
	var cnt, rate int64
	if choose(2) == 0 {
		cnt = nondetInt64(1, 100*3600*10000000) // up to 100 h at 10 MHz
		rate = []int64{1, 1000, 90000, 10000000}[choose(4)]
		d.ticks, d.tickrate = int(cnt), int(rate)
	} else {
		cnt = nondetInt64(1, 100*3600*60)
		rate = []int64{24, 25, 30, 60}[choose(4)]
		d.frames, d.framerate = int(cnt), int(rate)
	}
	vassume(cnt/rate < 100*3600) // below 100 hours
	got := int64(d.duration())
	// exact instant without leaving int64: whole seconds plus the remainder's share of a second
	q, r := cnt/rate, cnt%rate
	floor := q*1000000000 + r*1000000000/rate
	vassert(vand(got >= floor-1, got <= floor+1), "C03 tick/frame counts resolve to count/rate seconds over the whole range")
	vreach("end")
}

// C03 H4: what WriteToTTML hands to the XML encoder denotes the list: regions and styles sorted by id with their
// parent/style references and inline attributes, one <p> per cue with begin/end and references, runs as spans
// separated by one <br/> per line break, title/copyright/language - for every iteration order of the maps.
func VH_C03_PreEncode() {
	vmode("int")
	k := choose(vbound("shapes", 12, 36))
	s := NewSubtitles()
	s.Metadata = &Metadata{Title: "T", TTMLCopyright: "C", Language: []string{LanguageFrench, LanguageEnglish, "klingon", LanguageJapanese}[k%4]}
	ns := 1 + k%3
	ids := []string{"sb", "sa", "sc"}
	for i := 0; i < ns; i++ {
		st := &Style{ID: ids[i], InlineStyle: &StyleAttributes{TTMLColor: vstrp("#00ff00")}}
		s.Styles[st.ID] = st
	}
	if ns > 1 {
		s.Styles[ids[1]].Style = s.Styles[ids[0]]
	}
	rg := &Region{ID: "r1", InlineStyle: &StyleAttributes{TTMLOrigin: vstrp("10% 80%")}, Style: s.Styles[ids[k%ns]]}
	s.Regions[rg.ID] = rg
	s.Regions["r0"] = &Region{ID: "r0"}
	st1 := nondetInt64(0, 3599) * 1000000000
	nl := 1 + (k/3)%2
	it := &Item{StartAt: time.Duration(st1), EndAt: time.Duration(st1 + 2000000000), Region: rg, Style: s.Styles[ids[(k+1)%ns]], InlineStyle: &StyleAttributes{TTMLTextAlign: vstrp("center")}}
	// a cue may begin with an empty line (a line without runs): it is a line break before the first span
	lead := 0
	if (k/2)%3 == 1 {
		lead = 1
		it.Lines = append(it.Lines, Line{})
	}
	for l := 0; l < nl; l++ {
		it.Lines = append(it.Lines, Line{Items: []LineItem{{Text: "x" + string(rune('0'+l))}, {Text: "y", Style: s.Styles[ids[0]], InlineStyle: &StyleAttributes{TTMLFontStyle: vstrp("italic")}}}})
	}
	s.Items = append(s.Items, it, &Item{StartAt: 5000 * time.Second, EndAt: 5001 * time.Second, Lines: []Line{{Items: []LineItem{{Text: "plain"}}}}})
	vxmlCaptured = nil
	var buf bytes.Buffer
	vmaporder(true)
	err := s.WriteToTTML(&buf)
	vmaporder(false)
	if vnative() {
		// native run: the real encoder wrote the document; what can be observed of the value is what the library's
		// reader gets back from it (same labels for the clauses it can see)
		vassert(err == nil, "C03 pre-encode: one document handed to the encoder")
		r, rerr := ReadFromTTML(&buf)
		vassert(rerr == nil && len(r.Items) == 2, "C03 pre-encode: one paragraph per cue")
		if rerr != nil || len(r.Items) != 2 {
			return
		}
		ri := r.Items[0]
		vassert(int64(ri.StartAt) == st1 && int64(ri.EndAt) == st1+2000000000, "C03 pre-encode: begin and end")
		vassert(ri.Region != nil && ri.Region.ID == "r1" && ri.Style != nil && ri.Style.ID == ids[(k+1)%ns], "C03 pre-encode: paragraph references and inline attributes")
		vassert(len(ri.Lines) == len(it.Lines), "C03 pre-encode: runs as spans, one br per line break")
		vassert(len(r.Styles) == ns, "C03 pre-encode: every style")
		vassert(len(r.Regions) == 2, "C03 pre-encode: regions sorted by id with style reference and attributes")
		return
	}
	vassert(err == nil && len(vxmlCaptured) == 1, "C03 pre-encode: one document handed to the encoder")
	if err != nil || len(vxmlCaptured) != 1 {
		return
	}
	out, ok := vxmlCaptured[0].(TTMLOut)
	vassert(ok, "C03 pre-encode: a TTMLOut value")
	if !ok {
		return
	}
	wantLang := map[string]string{LanguageFrench: "fr", LanguageEnglish: "en", LanguageJapanese: "ja"}[s.Metadata.Language]
	vassert(out.Lang == wantLang, "C03 pre-encode: language code for the mapped languages, none otherwise")
	vassert(out.Metadata != nil && out.Metadata.Title == "T" && out.Metadata.Copyright == "C", "C03 pre-encode: title and copyright")
	vassert(len(out.Regions) == 2 && out.Regions[0].ID == "r0" && out.Regions[1].ID == "r1" && out.Regions[1].Style == ids[k%ns] && out.Regions[1].Origin != nil && *out.Regions[1].Origin == "10% 80%", "C03 pre-encode: regions sorted by id with style reference and attributes")
	vassert(len(out.Styles) == ns, "C03 pre-encode: every style")
	for i := 1; i < len(out.Styles); i++ {
		vassert(out.Styles[i-1].ID < out.Styles[i].ID, "C03 pre-encode: styles sorted by id")
	}
	for _, os := range out.Styles {
		want := ""
		if s.Styles[os.ID].Style != nil {
			want = s.Styles[os.ID].Style.ID
		}
		vassert(os.Style == want && os.Color != nil && *os.Color == "#00ff00", "C03 pre-encode: style inheritance reference and attributes")
	}
	vassert(len(out.Subtitles) == 2, "C03 pre-encode: one paragraph per cue")
	if len(out.Subtitles) != 2 {
		return
	}
	p := out.Subtitles[0]
	vassert(int64(p.Begin) == st1 && int64(p.End) == st1+2000000000, "C03 pre-encode: begin and end")
	vassert(p.Region == "r1" && p.Style == ids[(k+1)%ns] && p.TextAlign != nil && *p.TextAlign == "center", "C03 pre-encode: paragraph references and inline attributes")
	vassert(len(p.Items) == lead+nl*2+(nl-1), "C03 pre-encode: runs as spans, one br per line break")
	pos := 0
	if lead == 1 && len(p.Items) > 0 {
		vassert(p.Items[0].XMLName.Local == "br", "C03 pre-encode: a leading empty line is a leading br")
		pos = 1
	}
	for l := 0; l < nl; l++ {
		if pos+1 < len(p.Items) {
			vassert(p.Items[pos].XMLName.Local == "span" && p.Items[pos].Text == "x"+string(rune('0'+l)) && p.Items[pos+1].Text == "y" && p.Items[pos+1].Style == ids[0] &&
				p.Items[pos+1].FontStyle != nil && *p.Items[pos+1].FontStyle == "italic", "C03 pre-encode: span text, style reference and attributes")
		}
		pos += 2
		if l < nl-1 && pos < len(p.Items) {
			vassert(p.Items[pos].XMLName.Local == "br", "C03 pre-encode: br between lines")
			pos++
		}
	}
	vreach("end")
}
