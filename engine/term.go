package main

import (
	"sort"
	"fmt"
	"go/token"
	"math"
	"math/big"
	"math/bits"
	"os"
	"strconv"
)

type Mode int

const (
	ModeBV Mode = iota
	ModeINT
)

func (m Mode) String() string {
	if m == ModeINT {
		return "INT"
	}
	return "BV"
}

var checkIval = os.Getenv("VERIF_CHECKIVAL") == "1"
var noRadix = os.Getenv("VERIF_NORADIX") == "1"
var linDiv = os.Getenv("VERIF_LINDIV") == "1"

var trueT = &Term{Name: "true", Sort: Sort{K: SBool}}
var falseT = &Term{Name: "false", Sort: Sort{K: SBool}}

// def registers an expression with the solver and returns a short name for it.
func (e *Exec) def(sort Sort, expr string) *Term {
	t := &Term{Sort: sort}
	if len(expr) <= 28 {
		t.Name = expr
		return t
	}
	if n, ok := e.defCache[expr]; ok {
		t.Name = n
		return t
	}
	e.nterm++
	t.Name = "t" + strconv.Itoa(e.nterm)
	e.sol.Send("(define-fun " + t.Name + " () " + sort.String() + " " + expr + ")")
	e.defCache[expr] = t.Name
	return t
}

func (e *Exec) fresh(prefix string, sort Sort) *Term {
	e.nterm++
	n := prefix + strconv.Itoa(e.nterm)
	e.sol.Send("(declare-const " + n + " " + sort.String() + ")")
	return &Term{Name: n, Sort: sort}
}

func (e *Exec) intSort(w uint8) Sort {
	if e.mode == ModeINT {
		return Sort{K: SInt}
	}
	return Sort{K: SBV, W: int(w)}
}

func bvLit(v uint64, w int) string {
	if w < 64 {
		v &= (uint64(1) << uint(w)) - 1
	}
	return "(_ bv" + strconv.FormatUint(v, 10) + " " + strconv.Itoa(w) + ")"
}

func intLit(v int64) string {
	if v < 0 {
		if v == math.MinInt64 {
			return "(- 9223372036854775808)"
		}
		return "(- " + strconv.FormatInt(-v, 10) + ")"
	}
	return strconv.FormatInt(v, 10)
}

func bigLit(v *big.Int) string {
	if v.Sign() < 0 {
		return "(- " + new(big.Int).Neg(v).String() + ")"
	}
	return v.String()
}

// mathVal is the mathematical value of a concrete Int as (int64, isHugeUnsigned).
func (x Int) mathBig() *big.Int {
	if x.Sg || x.C >= 0 {
		return big.NewInt(x.C)
	}
	return new(big.Int).SetUint64(uint64(x.C))
}

// intTerm returns the term denoting x in the current mode.
func (e *Exec) intTerm(x Int) *Term {
	if x.S != nil {
		return x.S
	}
	if e.mode == ModeINT {
		t := &Term{Sort: Sort{K: SInt}}
		if !x.Sg && x.C < 0 {
			t.Name = new(big.Int).SetUint64(uint64(x.C)).String()
			return t
		}
		t.Name = intLit(x.C)
		t.Lo, t.Hi, t.Bnd = x.C, x.C, true
		return t
	}
	t := &Term{Name: bvLit(uint64(x.C), int(x.W)), Sort: Sort{K: SBV, W: int(x.W)}}
	if x.Sg || x.C >= 0 {
		t.Lo, t.Hi, t.Bnd = x.C, x.C, true
	}
	return t
}

func (e *Exec) boolTerm(b Bool) *Term {
	if b.S != nil {
		return b.S
	}
	if b.C {
		return trueT
	}
	return falseT
}

// ---------- interval helpers ----------

func addOv(a, b int64) (int64, bool) {
	c := a + b
	if (c > a) == (b > 0) {
		return c, true
	}
	return 0, false
}
func subOv(a, b int64) (int64, bool) {
	c := a - b
	if (c < a) == (b > 0) {
		return c, true
	}
	return 0, false
}
func mulOv(a, b int64) (int64, bool) {
	if a == 0 || b == 0 {
		return 0, true
	}
	hi, lo := bits.Mul64(uint64(abs64(a)), uint64(abs64(b)))
	if hi != 0 || lo > math.MaxInt64 {
		return 0, false
	}
	if a == math.MinInt64 || b == math.MinInt64 {
		return 0, false
	}
	if (a < 0) != (b < 0) {
		return -int64(lo), true
	}
	return int64(lo), true
}
func abs64(a int64) int64 {
	if a < 0 {
		return -a
	}
	return a
}
func min64(a ...int64) int64 {
	m := a[0]
	for _, x := range a[1:] {
		if x < m {
			m = x
		}
	}
	return m
}
func max64(a ...int64) int64 {
	m := a[0]
	for _, x := range a[1:] {
		if x > m {
			m = x
		}
	}
	return m
}

// ival returns the interval of x (falls back to the type's range).
func (e *Exec) ival(x Int) (lo, hi int64, ok bool) {
	if x.S == nil {
		if !x.Sg && x.C < 0 {
			return 0, 0, false
		}
		return x.C, x.C, true
	}
	if x.S.Bnd {
		lo, hi, ok = x.S.Lo, x.S.Hi, true
	} else {
		lo, hi, ok = typeRange(x.W, x.Sg)
	}
	if r, has := e.refine[e.refKey(x.S, x.Sg)]; has {
		if !ok {
			if r[0] >= 0 {
				return r[0], r[1], true
			}
			return lo, hi, ok
		}
		if r[0] > lo {
			lo = r[0]
		}
		if r[1] < hi {
			hi = r[1]
		}
		if lo > hi { // contradictory path condition; keep a sound (arbitrary) non-empty interval
			hi = lo
		}
	}
	return lo, hi, ok
}

func (e *Exec) refKey(t *Term, sg bool) string {
	if e.mode == ModeINT || sg {
		return t.Name
	}
	return t.Name + "|u"
}

// learn records the consequence of an asserted comparison "X op C" for X's interval on this path.
func (e *Exec) learn(t *Term) {
	if t.CmpX == nil {
		return
	}
	key := e.refKey(t.CmpX, t.CmpSg)
	r, has := e.refine[key]
	if !has {
		r = [2]int64{math.MinInt64, math.MaxInt64}
	}
	c := t.CmpC
	switch t.CmpOp {
	case token.EQL:
		r[0], r[1] = max64(r[0], c), min64(r[1], c)
	case token.LSS:
		if c > math.MinInt64 {
			r[1] = min64(r[1], c-1)
		}
	case token.LEQ:
		r[1] = min64(r[1], c)
	case token.GTR:
		if c < math.MaxInt64 {
			r[0] = max64(r[0], c+1)
		}
	case token.GEQ:
		r[0] = max64(r[0], c)
	default:
		return
	}
	e.refine[key] = r
}

func inRange(lo, hi int64, w uint8, sg bool) bool {
	tl, th, ok := typeRange(w, sg)
	if !ok { // uint64: any non-negative int64 interval fits
		return lo >= 0
	}
	return lo >= tl && hi <= th
}

// mkSym wraps a term as an Int of the given kind, attaching an interval; if the interval
// is a single point the result is concrete.
func (e *Exec) mkSym(t *Term, w uint8, sg bool, lo, hi int64, bnd bool) Int {
	if bnd {
		tl, th, ok := typeRange(w, sg)
		if ok {
			if lo < tl {
				lo = tl
			}
			if hi > th {
				hi = th
			}
		}
		if checkIval && t.Name != "" && t.Name[0] != '(' || checkIval && len(t.Name) > 0 {
			e.checkInterval(t, w, sg, lo, hi)
		}
		if lo == hi {
			return normInt(Int{W: w, Sg: sg, C: lo})
		}
		nt := *t
		nt.Lo, nt.Hi, nt.Bnd = lo, hi, true
		return Int{W: w, Sg: sg, S: &nt}
	}
	nt := *t
	nt.Bnd = false
	return Int{W: w, Sg: sg, S: &nt}
}

// wrapINT applies Go's wrap-around to a mathematical Int term when its interval may leave the type.
func (e *Exec) wrapINT(t *Term, w uint8, sg bool, lo, hi int64, bnd bool) Int {
	if bnd && inRange(lo, hi, w, sg) {
		return e.mkSym(t, w, sg, lo, hi, true)
	}
	if !sg && w < 63 && bnd && lo >= 0 && !noRadix && t.Sort.K == SInt {
		// unsigned truncation of a non-negative value: x mod 2^w through the mixed-radix decomposition
		if _, r, ok := e.radixDivMod(Int{W: 64, Sg: true, S: &Term{Name: t.Name, Sort: t.Sort, Lo: lo, Hi: hi, Bnd: true, Rad: t.Rad, RadHi: t.RadHi, RadLo: t.RadLo, RadUnit: t.RadUnit, Sum: t.Sum}}, int64(1)<<uint(w)); ok {
			if r.S == nil {
				return normInt(Int{W: w, Sg: sg, C: r.C})
			}
			rl, rh, _ := e.ival(r)
			return e.mkSym(r.S, w, sg, rl, rh, true)
		}
	}
	e.wraps++
	mod := new(big.Int).Lsh(big.NewInt(1), uint(w))
	var expr string
	if sg {
		half := new(big.Int).Lsh(big.NewInt(1), uint(w-1))
		expr = fmt.Sprintf("(- (mod (+ %s %s) %s) %s)", t.Name, half, mod, half)
	} else {
		expr = fmt.Sprintf("(mod %s %s)", t.Name, mod)
	}
	nt := e.def(Sort{K: SInt}, expr)
	return e.mkSym(nt, w, sg, 0, 0, false)
}

func pow2(k uint) int64 { return int64(1) << k }

func isPow2Minus1(v int64) (uint, bool) {
	if v <= 0 {
		return 0, false
	}
	if (v+1)&v != 0 {
		return 0, false
	}
	return uint(bits.Len64(uint64(v))), true
}

// intBin evaluates a Go binary arithmetic/bitwise operator on two integers of the same kind
// (shifts: y may be of a different kind).
func (e *Exec) intBin(op token.Token, x, y Int) Int {
	if x.S == nil && y.S == nil {
		return concBin(op, x, y)
	}
	w, sg := x.W, x.Sg
	// algebraic shortcuts
	if y.S == nil {
		switch op {
		case token.ADD, token.SUB, token.OR, token.XOR, token.SHL, token.SHR, token.AND_NOT:
			if y.C == 0 {
				return x
			}
		case token.MUL:
			if y.C == 1 {
				return x
			}
			if y.C == 0 {
				return Int{W: w, Sg: sg}
			}
		case token.QUO:
			if y.C == 1 {
				return x
			}
		case token.AND:
			if y.C == 0 {
				return Int{W: w, Sg: sg}
			}
		}
	}
	if x.S == nil {
		switch op {
		case token.ADD, token.OR, token.XOR:
			if x.C == 0 {
				return y
			}
		case token.MUL:
			if x.C == 1 {
				return y
			}
			if x.C == 0 {
				return Int{W: w, Sg: sg}
			}
		case token.AND, token.SHL, token.SHR, token.QUO, token.REM:
			if x.C == 0 {
				return Int{W: w, Sg: sg}
			}
		}
	}
	xl, xh, xok := e.ival(x)
	yl, yh, yok := e.ival(y)
	if (op == token.REM || op == token.QUO) && xok && yok && xl >= 0 && yl > 0 && xh < yl {
		if op == token.REM {
			return x
		}
		return Int{W: w, Sg: sg}
	}
	tx, ty := e.intTerm(x), e.intTerm(y)
	if e.mode == ModeINT {
		return e.intBinINT(op, x, y, tx, ty, xl, xh, xok, yl, yh, yok)
	}
	// ---- BV mode ----
	var lo, hi int64
	bnd := false
	var sop string
	switch op {
	case token.ADD:
		sop = "bvadd"
		if xok && yok {
			l, o1 := addOv(xl, yl)
			h, o2 := addOv(xh, yh)
			if o1 && o2 && inRange(l, h, w, sg) {
				lo, hi, bnd = l, h, true
			}
		}
	case token.SUB:
		sop = "bvsub"
		if xok && yok {
			l, o1 := subOv(xl, yh)
			h, o2 := subOv(xh, yl)
			if o1 && o2 && inRange(l, h, w, sg) {
				lo, hi, bnd = l, h, true
			}
		}
	case token.MUL:
		sop = "bvmul"
		if xok && yok {
			a, o1 := mulOv(xl, yl)
			b, o2 := mulOv(xl, yh)
			c, o3 := mulOv(xh, yl)
			d, o4 := mulOv(xh, yh)
			if o1 && o2 && o3 && o4 {
				l, h := min64(a, b, c, d), max64(a, b, c, d)
				if inRange(l, h, w, sg) {
					lo, hi, bnd = l, h, true
				}
			}
		}
	case token.QUO, token.REM:
		// narrow: a non-negative dividend below 2^31 divided by a positive constant is computed on 32 bits
		if w == 64 && y.S == nil && xok && xl >= 0 && xh < 1<<31 && y.C > 0 && y.C < 1<<31 {
			nx := e.intConv(x, 32, false)
			r := e.intBin(op, nx, Int{W: 32, C: y.C})
			return e.intConv(r, w, sg)
		}
		if op == token.REM {
			if sg {
				sop = "bvsrem"
			} else {
				sop = "bvurem"
			}
			if yok && yl > 0 {
				if xok && xl >= 0 {
					lo, hi, bnd = 0, min64(xh, yh-1), true
				} else {
					lo, hi, bnd = -(yh - 1), yh-1, true
				}
			}
			break
		}
		if sg {
			sop = "bvsdiv"
		} else {
			sop = "bvudiv"
		}
		if xok && yok && yl > 0 {
			if xl >= 0 {
				lo, hi, bnd = xl/yh, xh/yl, true
			} else {
				lo, hi, bnd = min64(xl/yl, xl/yh), max64(xh/yl, 0), true
			}
		}
	case token.AND:
		sop = "bvand"
		if yok && yl >= 0 && xok && xl >= 0 {
			lo, hi, bnd = 0, min64(xh, yh), true
		} else if yok && yl >= 0 {
			lo, hi, bnd = 0, yh, true
		} else if xok && xl >= 0 {
			lo, hi, bnd = 0, xh, true
		}
	case token.OR, token.XOR:
		if op == token.OR {
			sop = "bvor"
		} else {
			sop = "bvxor"
		}
		if xok && yok && xl >= 0 && yl >= 0 {
			n := bits.Len64(uint64(max64(xh, yh)))
			if n < 63 {
				lo, hi, bnd = 0, pow2(uint(n))-1, true
			}
		}
	case token.AND_NOT:
		t := e.def(tx.Sort, "(bvand "+tx.Name+" (bvnot "+ty.Name+"))")
		if xok && xl >= 0 {
			return e.mkSym(t, w, sg, 0, xh, true)
		}
		return e.mkSym(t, w, sg, 0, 0, false)
	case token.SHL, token.SHR:
		cnt := e.shiftCount(y, ty, w)
		if op == token.SHL {
			sop = "bvshl"
			if y.S == nil && xok && xl >= 0 && y.C >= 0 && y.C < 62 {
				h, o := mulOv(xh, pow2(uint(y.C)))
				if o && inRange(0, h, w, sg) {
					lo, hi, bnd = xl<<uint(y.C), h, true
				}
			}
		} else {
			if sg {
				sop = "bvashr"
			} else {
				sop = "bvlshr"
			}
			if xok && xl >= 0 {
				if y.S == nil && y.C >= 0 && y.C < 64 {
					lo, hi, bnd = xl>>uint(y.C), xh>>uint(y.C), true
				} else {
					lo, hi, bnd = 0, xh, true
				}
			}
		}
		t := e.def(tx.Sort, "("+sop+" "+tx.Name+" "+cnt+")")
		return e.mkSym(t, w, sg, lo, hi, bnd)
	default:
		panic(unsupported("int binop " + op.String()))
	}
	t := e.def(tx.Sort, "("+sop+" "+tx.Name+" "+ty.Name+")")
	return e.mkSym(t, w, sg, lo, hi, bnd)
}

// shiftCount renders the shift count as a BV of width w with Go semantics (counts >= w saturate).
func (e *Exec) shiftCount(y Int, ty *Term, w uint8) string {
	if y.S == nil {
		c := uint64(y.C)
		if y.Sg && y.C < 0 {
			panic(goPanic{msg: "negative shift amount"})
		}
		if c > uint64(w) {
			c = uint64(w)
		}
		return bvLit(c, int(w))
	}
	if y.W == w {
		return ty.Name
	}
	if y.W < w {
		return fmt.Sprintf("((_ zero_extend %d) %s)", w-y.W, ty.Name)
	}
	// wider count: saturate
	return fmt.Sprintf("(ite (bvuge %s %s) %s ((_ extract %d 0) %s))", ty.Name, bvLit(uint64(w), int(y.W)), bvLit(uint64(w), int(w)), w-1, ty.Name)
}

func (e *Exec) intBinINT(op token.Token, x, y Int, tx, ty *Term, xl, xh int64, xok bool, yl, yh int64, yok bool) Int {
	w, sg := x.W, x.Sg
	if (op == token.ADD || op == token.SUB) && x.S != nil && y.S != nil && !noRadix {
		// a dividend that owns a decomposition is the full digit range of it
		if x.S.Rad == nil && y.S.Rad != nil && y.S.Rad.x.Name == x.S.Name {
			nt := *x.S
			nt.Rad, nt.RadHi, nt.RadLo, nt.RadUnit = y.S.Rad, 0, 1, 1
			x.S = &nt
		}
		if y.S.Rad == nil && x.S.Rad != nil && x.S.Rad.x.Name == y.S.Name {
			nt := *y.S
			nt.Rad, nt.RadHi, nt.RadLo, nt.RadUnit = x.S.Rad, 0, 1, 1
			y.S = &nt
		}
	}
	if (op == token.ADD || op == token.SUB) && x.S != nil && y.S != nil && x.S.Rad != nil && x.S.Rad == y.S.Rad && x.S.RadUnit == y.S.RadUnit && !noRadix {
		r, u := x.S.Rad, x.S.RadUnit
		h1, l1, h2, l2 := x.S.RadHi, x.S.RadLo, y.S.RadHi, y.S.RadLo
		if op == token.ADD {
			if l1 == h2 && h2 != 0 { // x upper, y lower, adjacent
				return e.radixRange(r, h1, l2, u, w, sg)
			}
			if l2 == h1 && h1 != 0 {
				return e.radixRange(r, h2, l1, u, w, sg)
			}
		} else {
			if h1 == h2 && l2 > l1 { // minus its upper part
				return e.radixRange(r, l2, l1, u, w, sg)
			}
			if l1 == l2 && h2 != 0 && (h1 == 0 || h2 < h1) { // minus its lower part
				return e.radixRange(r, h1, h2, u, w, sg)
			}
		}
	}
	if op == token.ADD && xok && yok && !noRadix {
		// remember the addends of a sum: a later division may rebuild a mixed-radix number from them
		l, o1 := addOv(xl, yl)
		h, o2 := addOv(xh, yh)
		if o1 && o2 && inRange(l, h, w, sg) {
			var parts []Int
			for _, a := range []Int{x, y} {
				if a.S != nil && a.S.Sum != nil {
					parts = append(parts, a.S.Sum...)
				} else {
					parts = append(parts, a)
				}
			}
			if o1 && o2 && inRange(l, h, w, sg) && len(parts) <= 8 {
				res := e.intBinINTplain(op, x, y, tx, ty, xl, xh, xok, yl, yh, yok)
				if res.S != nil {
					nt := *res.S
					nt.Sum = parts
					res.S = &nt
				}
				return res
			}
		}
	}
	return e.intBinINTplain(op, x, y, tx, ty, xl, xh, xok, yl, yh, yok)
}

func (e *Exec) intBinINTplain(op token.Token, x, y Int, tx, ty *Term, xl, xh int64, xok bool, yl, yh int64, yok bool) Int {
	w, sg := x.W, x.Sg
	S := Sort{K: SInt}
	// base+offset normal form: (b + c1) +/- c2 is rebuilt as b + (c1 +/- c2), collapsing to b when the offsets cancel
	if (op == token.ADD || op == token.SUB) && xok && yok {
		var sym *Term
		var c, sl, sh int64
		switch {
		case y.S == nil && x.S != nil && (y.Sg || y.C >= 0):
			sym, c, sl, sh = x.S, y.C, xl, xh
			if op == token.SUB {
				c = -c
			}
		case x.S == nil && y.S != nil && op == token.ADD && (x.Sg || x.C >= 0):
			sym, c, sl, sh = y.S, x.C, yl, yh
		}
		if sym != nil && sym.Base != nil && c > -(1<<40) && c < 1<<40 && sym.Off > -(1<<40) && sym.Off < 1<<40 {
			off := sym.Off + c
			l, o1 := addOv(sl, c)
			h, o2 := addOv(sh, c)
			if o1 && o2 && inRange(l, h, w, sg) {
				base := sym.Base
				if off == 0 {
					nb := *base
					return e.mkSym(&nb, w, sg, l, h, true)
				}
				t := e.def(S, "(+ "+base.Name+" "+intLit(off)+")")
				t.Base, t.Off = base, off
				return e.mkSym(t, w, sg, l, h, true)
			}
		} else if sym != nil && sym.Base == nil && c != 0 && c > -(1<<40) && c < 1<<40 {
			l, o1 := addOv(sl, c)
			h, o2 := addOv(sh, c)
			if o1 && o2 && inRange(l, h, w, sg) {
				t := e.def(S, "(+ "+sym.Name+" "+intLit(c)+")")
				t.Base, t.Off = sym, c
				return e.mkSym(t, w, sg, l, h, true)
			}
		}
	}
	switch op {
	case token.ADD:
		t := e.def(S, "(+ "+tx.Name+" "+ty.Name+")")
		if xok && yok {
			l, o1 := addOv(xl, yl)
			h, o2 := addOv(xh, yh)
			if o1 && o2 {
				return e.wrapINT(t, w, sg, l, h, true)
			}
		}
		return e.wrapINT(t, w, sg, 0, 0, false)
	case token.SUB:
		t := e.def(S, "(- "+tx.Name+" "+ty.Name+")")
		if xok && yok {
			l, o1 := subOv(xl, yh)
			h, o2 := subOv(xh, yl)
			if o1 && o2 {
				return e.wrapINT(t, w, sg, l, h, true)
			}
		}
		return e.wrapINT(t, w, sg, 0, 0, false)
	case token.MUL:
		if !noRadix {
			if y.S == nil && x.S != nil {
				if r, ok := e.radixMulConst(x, y.C); ok {
					return r
				}
			} else if x.S == nil && y.S != nil {
				if r, ok := e.radixMulConst(y, x.C); ok {
					return r
				}
			}
		}
		t := e.def(S, "(* "+tx.Name+" "+ty.Name+")")
		if x.S != nil && y.S != nil {
			e.nonlinear++
		}
		if xok && yok {
			a, o1 := mulOv(xl, yl)
			b, o2 := mulOv(xl, yh)
			c, o3 := mulOv(xh, yl)
			d, o4 := mulOv(xh, yh)
			if o1 && o2 && o3 && o4 {
				res := e.wrapINT(t, w, sg, min64(a, b, c, d), max64(a, b, c, d), true)
				// remember "symbolic x constant" (no wrap): a sum of such products may be a positional number
				if res.S != nil && res.S.Name == t.Name && inRange(min64(a, b, c, d), max64(a, b, c, d), w, sg) {
					var st *Term
					var k int64
					if y.S == nil && x.S != nil && y.C > 1 {
						st, k = x.S, y.C
					} else if x.S == nil && y.S != nil && x.C > 1 {
						st, k = y.S, x.C
					}
					if st != nil {
						nt := *res.S
						nt.MulOf, nt.MulC = st, k
						res.S = &nt
					}
				}
				return res
			}
		}
		return e.wrapINT(t, w, sg, 0, 0, false)
	case token.QUO, token.REM:
		// Go truncates toward zero; SMT div/mod are floor/euclidean.
		if !(yok && (yl > 0 || yh < 0)) {
			// divisor sign unknown (zero excluded by the caller's check): general encoding
			q := fmt.Sprintf("(ite (>= %s 0) (ite (> %s 0) (div %s %s) (- (div %s (- %s)))) (ite (> %s 0) (- (div (- %s) %s)) (div (- %s) (- %s))))",
				tx.Name, ty.Name, tx.Name, ty.Name, tx.Name, ty.Name, ty.Name, tx.Name, ty.Name, tx.Name, ty.Name)
			tq := e.def(S, q)
			if op == token.QUO {
				return e.wrapINT(tq, w, sg, 0, 0, false)
			}
			tr := e.def(S, fmt.Sprintf("(- %s (* %s %s))", tx.Name, tq.Name, ty.Name))
			return e.wrapINT(tr, w, sg, 0, 0, false)
		}
		if y.S != nil {
			e.nonlinear++
		}
		if yh < 0 {
			panic(unsupported("INT division by negative symbolic divisor"))
		}
		if y.S == nil && xok && xl >= 0 && !noRadix {
			if q, r, ok := e.radixDivMod(x, y.C); ok {
				if op == token.QUO {
					return q
				}
				return r
			}
		}
		if y.S == nil && linDiv {
			// constant positive divisor: linearise with fresh quotient/remainder x = c*q + r (shared between / and %)
			q, r := e.divmodConst(x, tx, y.C, xl, xh, xok)
			if op == token.QUO {
				return q
			}
			return r
		}
		if xok && xl >= 0 {
			if op == token.QUO {
				t := e.def(S, "(div "+tx.Name+" "+ty.Name+")")
				return e.mkSym(t, w, sg, xl/yh, xh/yl, true)
			}
			t := e.def(S, "(mod "+tx.Name+" "+ty.Name+")")
			return e.mkSym(t, w, sg, 0, min64(xh, yh-1), true)
		}
		if op == token.QUO {
			t := e.def(S, fmt.Sprintf("(ite (>= %s 0) (div %s %s) (- (div (- %s) %s)))", tx.Name, tx.Name, ty.Name, tx.Name, ty.Name))
			if xok {
				return e.mkSym(t, w, sg, min64(xl/yl, xl/yh, 0), max64(xh/yl, 0), true)
			}
			return e.wrapINT(t, w, sg, 0, 0, false) // MinInt64 / -1 cannot happen (y>0)
		}
		t := e.def(S, fmt.Sprintf("(ite (>= %s 0) (mod %s %s) (- (mod (- %s) %s)))", tx.Name, tx.Name, ty.Name, tx.Name, ty.Name))
		return e.mkSym(t, w, sg, -(yh - 1), yh-1, true)
	case token.AND:
		if y.S == nil {
			if k, ok := isPow2Minus1(y.C); ok {
				if xok && xl >= 0 && xh <= y.C {
					return x
				}
				if xok && xl >= 0 && !noRadix {
					if _, r, ok := e.radixDivMod(x, pow2(k)); ok {
						return r
					}
				}
				t := e.def(S, fmt.Sprintf("(mod %s %d)", tx.Name, pow2(k)))
				return e.mkSym(t, w, sg, 0, y.C, true)
			}
		}
		if x.S == nil {
			if k, ok := isPow2Minus1(x.C); ok {
				t := e.def(S, fmt.Sprintf("(mod %s %d)", ty.Name, pow2(k)))
				return e.mkSym(t, w, sg, 0, x.C, true)
			}
		}
		return e.bitwiseINT(op, x, y)
	case token.OR, token.XOR, token.AND_NOT:
		return e.bitwiseINT(op, x, y)
	case token.SHL:
		if y.S != nil {
			panic(unsupported("INT mode: symbolic shift count"))
		}
		if y.C >= int64(w) {
			return Int{W: w, Sg: sg}
		}
		f := new(big.Int).Lsh(big.NewInt(1), uint(y.C))
		t := e.def(S, "(* "+tx.Name+" "+f.String()+")")
		if xok && y.C < 62 {
			l, o1 := mulOv(xl, pow2(uint(y.C)))
			h, o2 := mulOv(xh, pow2(uint(y.C)))
			if o1 && o2 {
				return e.wrapINT(t, w, sg, l, h, true)
			}
		}
		return e.wrapINT(t, w, sg, 0, 0, false)
	case token.SHR:
		if y.S != nil {
			panic(unsupported("INT mode: symbolic shift count"))
		}
		if y.C >= int64(w) {
			if sg {
				panic(unsupported("INT mode: signed shift by >= width"))
			}
			return Int{W: w, Sg: sg}
		}
		if xok && xl >= 0 && y.C < 62 && !noRadix {
			if q, _, ok := e.radixDivMod(x, int64(1)<<uint(y.C)); ok {
				return q
			}
		}
		f := new(big.Int).Lsh(big.NewInt(1), uint(y.C))
		t := e.def(S, "(div "+tx.Name+" "+f.String()+")")
		if xok {
			return e.mkSym(t, w, sg, xl>>uint(y.C), xh>>uint(y.C), true)
		}
		return e.mkSym(t, w, sg, 0, 0, false)
	}
	panic(unsupported("INT mode binop " + op.String()))
}

// bitwiseINT expands small operands bit by bit (only when both fit in 16 bits, non-negative).
func (e *Exec) bitwiseINT(op token.Token, x, y Int) Int {
	xl, xh, xok := e.ival(x)
	yl, yh, yok := e.ival(y)
	if !(xok && yok && xl >= 0 && yl >= 0 && xh < 1<<16 && yh < 1<<16) {
		panic(unsupported("INT mode: bitwise " + op.String() + " on wide operands"))
	}
	n := bits.Len64(uint64(max64(xh, yh)))
	tx, ty := e.intTerm(x), e.intTerm(y)
	expr := "(+"
	for i := 0; i < n; i++ {
		bx := fmt.Sprintf("(mod (div %s %d) 2)", tx.Name, pow2(uint(i)))
		by := fmt.Sprintf("(mod (div %s %d) 2)", ty.Name, pow2(uint(i)))
		var c string
		switch op {
		case token.AND:
			c = fmt.Sprintf("(and (= %s 1) (= %s 1))", bx, by)
		case token.OR:
			c = fmt.Sprintf("(or (= %s 1) (= %s 1))", bx, by)
		case token.XOR:
			c = fmt.Sprintf("(distinct %s %s)", bx, by)
		case token.AND_NOT:
			c = fmt.Sprintf("(and (= %s 1) (= %s 0))", bx, by)
		}
		expr += fmt.Sprintf(" (ite %s %d 0)", c, pow2(uint(i)))
	}
	expr += " 0)"
	t := e.def(Sort{K: SInt}, expr)
	return e.mkSym(t, x.W, x.Sg, 0, pow2(uint(n))-1, true)
}

func concBin(op token.Token, x, y Int) Int {
	w, sg := x.W, x.Sg
	a, b := x.C, y.C
	var r int64
	switch op {
	case token.ADD:
		r = a + b
	case token.SUB:
		r = a - b
	case token.MUL:
		r = a * b
	case token.QUO:
		if b == 0 {
			panic(goPanic{msg: "integer divide by zero"})
		}
		if sg {
			if a == math.MinInt64 && b == -1 {
				r = a
			} else {
				r = a / b
			}
		} else {
			r = int64(uint64(a) / uint64(b))
		}
	case token.REM:
		if b == 0 {
			panic(goPanic{msg: "integer divide by zero"})
		}
		if sg {
			if b == -1 {
				r = 0
			} else {
				r = a % b
			}
		} else {
			r = int64(uint64(a) % uint64(b))
		}
	case token.AND:
		r = a & b
	case token.OR:
		r = a | b
	case token.XOR:
		r = a ^ b
	case token.AND_NOT:
		r = a &^ b
	case token.SHL:
		if y.Sg && b < 0 {
			panic(goPanic{msg: "negative shift amount"})
		}
		if uint64(b) >= 64 {
			r = 0
		} else {
			r = a << uint64(b)
		}
	case token.SHR:
		if y.Sg && b < 0 {
			panic(goPanic{msg: "negative shift amount"})
		}
		if sg {
			if uint64(b) >= 64 {
				if a < 0 {
					r = -1
				}
			} else {
				r = a >> uint64(b)
			}
		} else {
			if uint64(b) >= 64 {
				r = 0
			} else {
				r = int64(uint64(a) >> uint64(b))
			}
		}
	default:
		panic(unsupported("concBin " + op.String()))
	}
	return normInt(Int{W: w, Sg: sg, C: r})
}

// intCmp compares two integers of the same kind.
func (e *Exec) intCmp(op token.Token, x, y Int) Bool {
	if x.S == nil && y.S == nil {
		var r bool
		if x.Sg {
			switch op {
			case token.EQL:
				r = x.C == y.C
			case token.NEQ:
				r = x.C != y.C
			case token.LSS:
				r = x.C < y.C
			case token.LEQ:
				r = x.C <= y.C
			case token.GTR:
				r = x.C > y.C
			case token.GEQ:
				r = x.C >= y.C
			}
		} else {
			a, b := uint64(x.C), uint64(y.C)
			switch op {
			case token.EQL:
				r = a == b
			case token.NEQ:
				r = a != b
			case token.LSS:
				r = a < b
			case token.LEQ:
				r = a <= b
			case token.GTR:
				r = a > b
			case token.GEQ:
				r = a >= b
			}
		}
		return Bool{C: r}
	}
	xl, xh, xok := e.ival(x)
	yl, yh, yok := e.ival(y)
	if xok && yok {
		switch op {
		case token.EQL:
			if xh < yl || yh < xl {
				return Bool{C: false}
			}
		case token.NEQ:
			if xh < yl || yh < xl {
				return Bool{C: true}
			}
		case token.LSS:
			if xh < yl {
				return Bool{C: true}
			}
			if xl >= yh {
				return Bool{C: false}
			}
		case token.LEQ:
			if xh <= yl {
				return Bool{C: true}
			}
			if xl > yh {
				return Bool{C: false}
			}
		case token.GTR:
			if xl > yh {
				return Bool{C: true}
			}
			if xh <= yl {
				return Bool{C: false}
			}
		case token.GEQ:
			if xl >= yh {
				return Bool{C: true}
			}
			if xh < yl {
				return Bool{C: false}
			}
		}
	}
	tx, ty := e.intTerm(x), e.intTerm(y)
	if tx.Name == ty.Name {
		switch op {
		case token.EQL, token.LEQ, token.GEQ:
			return Bool{C: true}
		default:
			return Bool{C: false}
		}
	}
	var sop string
	neg := false
	if e.mode == ModeINT {
		switch op {
		case token.EQL:
			sop = "="
		case token.NEQ:
			sop, neg = "=", true
		case token.LSS:
			sop = "<"
		case token.LEQ:
			sop = "<="
		case token.GTR:
			sop = ">"
		case token.GEQ:
			sop = ">="
		}
	} else {
		switch op {
		case token.EQL:
			sop = "="
		case token.NEQ:
			sop, neg = "=", true
		case token.LSS:
			sop = "bvult"
		case token.LEQ:
			sop = "bvule"
		case token.GTR:
			sop = "bvugt"
		case token.GEQ:
			sop = "bvuge"
		}
		if x.Sg && sop[0] == 'b' {
			sop = "bvs" + sop[3:]
		}
	}
	expr := "(" + sop + " " + tx.Name + " " + ty.Name + ")"
	if neg {
		expr = "(not " + expr + ")"
	}
	bt := e.def(Sort{K: SBool}, expr)
	// remember "X op C" so that asserting it refines X's interval on this path
	if y.S == nil && x.S != nil && (y.Sg || y.C >= 0) {
		bt.CmpX, bt.CmpOp, bt.CmpC, bt.CmpSg = x.S, op, y.C, x.Sg
	} else if x.S == nil && y.S != nil && (x.Sg || x.C >= 0) {
		bt.CmpX, bt.CmpOp, bt.CmpC, bt.CmpSg = y.S, flipOp(op), x.C, y.Sg
	}
	return Bool{S: bt}
}

func flipOp(op token.Token) token.Token {
	switch op {
	case token.LSS:
		return token.GTR
	case token.LEQ:
		return token.GEQ
	case token.GTR:
		return token.LSS
	case token.GEQ:
		return token.LEQ
	}
	return op
}

func negOp(op token.Token) token.Token {
	switch op {
	case token.LSS:
		return token.GEQ
	case token.LEQ:
		return token.GTR
	case token.GTR:
		return token.LEQ
	case token.GEQ:
		return token.LSS
	case token.EQL:
		return token.NEQ
	case token.NEQ:
		return token.EQL
	}
	return op
}

// intConv converts x to an integer type of width w / signedness sg with Go semantics.
func (e *Exec) intConv(x Int, w uint8, sg bool) Int {
	if x.S == nil {
		return normInt(Int{W: w, Sg: sg, C: x.C})
	}
	xl, xh, xok := e.ival(x)
	fits := xok && inRange(xl, xh, w, sg)
	if e.mode == ModeINT {
		if fits {
			return e.mkSym(x.S, w, sg, xl, xh, true)
		}
		return e.wrapINT(x.S, w, sg, xl, xh, xok)
	}
	var t *Term
	switch {
	case w == x.W:
		t = x.S
	case w < x.W:
		t = e.def(Sort{K: SBV, W: int(w)}, fmt.Sprintf("((_ extract %d 0) %s)", w-1, x.S.Name))
	default:
		ext := "zero_extend"
		if x.Sg {
			ext = "sign_extend"
		}
		t = e.def(Sort{K: SBV, W: int(w)}, fmt.Sprintf("((_ %s %d) %s)", ext, w-x.W, x.S.Name))
	}
	if fits {
		return e.mkSym(t, w, sg, xl, xh, true)
	}
	return e.mkSym(t, w, sg, 0, 0, false)
}

func (e *Exec) intNeg(x Int) Int {
	return e.intBin(token.SUB, Int{W: x.W, Sg: x.Sg}, x)
}

func (e *Exec) intNot(x Int) Int {
	if x.S == nil {
		return normInt(Int{W: x.W, Sg: x.Sg, C: ^x.C})
	}
	if e.mode == ModeINT {
		// ^x == -x-1 for signed; for unsigned 2^w-1-x
		if x.Sg {
			return e.intBin(token.SUB, e.intNeg(x), Int{W: x.W, Sg: true, C: 1})
		}
		m := Int{W: x.W, Sg: false, C: -1}
		return e.intBin(token.SUB, normInt(m), x)
	}
	t := e.def(x.S.Sort, "(bvnot "+x.S.Name+")")
	return e.mkSym(t, x.W, x.Sg, 0, 0, false)
}

// ---------- booleans ----------

func (e *Exec) not(b Bool) Bool {
	if b.S == nil {
		return Bool{C: !b.C}
	}
	var nt *Term
	if len(b.S.Name) > 5 && b.S.Name[:5] == "(not " {
		nt = &Term{Name: b.S.Name[5 : len(b.S.Name)-1], Sort: Sort{K: SBool}}
	} else {
		nt = &Term{Name: "(not " + b.S.Name + ")", Sort: Sort{K: SBool}}
	}
	if b.S.CmpX != nil {
		nt.CmpX, nt.CmpOp, nt.CmpC, nt.CmpSg = b.S.CmpX, negOp(b.S.CmpOp), b.S.CmpC, b.S.CmpSg
	}
	return Bool{S: nt}
}

func (e *Exec) and(a, b Bool) Bool {
	if a.S == nil {
		if a.C {
			return b
		}
		return Bool{C: false}
	}
	if b.S == nil {
		if b.C {
			return a
		}
		return Bool{C: false}
	}
	return Bool{S: e.def(Sort{K: SBool}, "(and "+a.S.Name+" "+b.S.Name+")")}
}

func (e *Exec) or(a, b Bool) Bool {
	if a.S == nil {
		if a.C {
			return Bool{C: true}
		}
		return b
	}
	if b.S == nil {
		if b.C {
			return Bool{C: true}
		}
		return a
	}
	return Bool{S: e.def(Sort{K: SBool}, "(or "+a.S.Name+" "+b.S.Name+")")}
}

func (e *Exec) boolEq(a, b Bool) Bool {
	if a.S == nil && b.S == nil {
		return Bool{C: a.C == b.C}
	}
	if a.S == nil {
		if a.C {
			return b
		}
		return e.not(b)
	}
	if b.S == nil {
		if b.C {
			return a
		}
		return e.not(a)
	}
	return Bool{S: e.def(Sort{K: SBool}, "(= "+a.S.Name+" "+b.S.Name+")")}
}

// iteInt builds ite(c, x, y) for integers of the same kind.
func (e *Exec) iteInt(c Bool, x, y Int) Int {
	if c.S == nil {
		if c.C {
			return x
		}
		return y
	}
	if x.S == nil && y.S == nil && x.C == y.C {
		return x
	}
	tx, ty := e.intTerm(x), e.intTerm(y)
	t := e.def(tx.Sort, "(ite "+c.S.Name+" "+tx.Name+" "+ty.Name+")")
	xl, xh, xok := e.ival(x)
	yl, yh, yok := e.ival(y)
	if xok && yok {
		return e.mkSym(t, x.W, x.Sg, min64(xl, yl), max64(xh, yh), true)
	}
	return e.mkSym(t, x.W, x.Sg, 0, 0, false)
}

func (e *Exec) iteBool(c, x, y Bool) Bool {
	if c.S == nil {
		if c.C {
			return x
		}
		return y
	}
	return e.or(e.and(c, x), e.and(e.not(c), y))
}

// strEq returns the formula "a == b" for two strings.
func (e *Exec) strEq(a, b Str) Bool {
	if a.Len() != b.Len() {
		return Bool{C: false}
	}
	if a.S == nil && b.S == nil {
		return Bool{C: a.C == b.C}
	}
	r := Bool{C: true}
	for i := 0; i < a.Len(); i++ {
		c := e.intCmp(token.EQL, a.At(i), b.At(i))
		if c.S == nil && !c.C {
			return Bool{C: false}
		}
		r = e.and(r, c)
	}
	return r
}

// divmodConst introduces (once per dividend/divisor pair) fresh integers q, r with x = c*q + r and Go's
// truncated-division sign rule, so that the solver sees linear constraints instead of div/mod terms.
func (e *Exec) divmodConst(x Int, tx *Term, c int64, xl, xh int64, xok bool) (Int, Int) {
	key := tx.Name + "/" + strconv.FormatInt(c, 10)
	if qr, ok := e.divCache[key]; ok {
		return qr[0], qr[1]
	}
	S := Sort{K: SInt}
	q := e.fresh("q", S)
	r := e.fresh("r", S)
	e.sol.Send(fmt.Sprintf("(assert (= %s (+ (* %d %s) %s)))", tx.Name, c, q.Name, r.Name))
	var qi, ri Int
	if xok && xl >= 0 {
		e.sol.Send(fmt.Sprintf("(assert (and (>= %s 0) (< %s %d)))", r.Name, r.Name, c))
		qi = e.mkSym(q, x.W, x.Sg, xl/c, xh/c, true)
		ri = e.mkSym(r, x.W, x.Sg, 0, min64(xh, c-1), true)
	} else {
		e.sol.Send(fmt.Sprintf("(assert (ite (>= %s 0) (and (>= %s 0) (< %s %d)) (and (<= %s 0) (> %s (- %d)))))", tx.Name, r.Name, r.Name, c, r.Name, r.Name, c))
		if xok {
			qi = e.mkSym(q, x.W, x.Sg, min64(xl/c, 0), max64(xh/c, 0), true)
		} else {
			tl, th, _ := typeRange(x.W, x.Sg)
			qi = e.mkSym(q, x.W, x.Sg, tl/c, th/c, true)
		}
		ri = e.mkSym(r, x.W, x.Sg, -(c - 1), c-1, true)
	}
	// a single-point interval made the result concrete: pin the fresh constant as well
	if qi.S == nil {
		e.sol.Send(fmt.Sprintf("(assert (= %s %s))", q.Name, intLit(qi.C)))
	}
	if ri.S == nil {
		e.sol.Send(fmt.Sprintf("(assert (= %s %s))", r.Name, intLit(ri.C)))
	}
	e.divCache[key] = [2]Int{qi, ri}
	return qi, ri
}

// floorReal returns a fresh integer t with t <= v < t+1.
func (e *Exec) floorReal(v *Term) *Term {
	if t, ok := e.floorCache[v.Name]; ok {
		return t
	}
	if v.FloorCand != nil {
		// lemma attempt, decided by the solver: floor(v) is the integer addend of v
		c := v.FloorCand
		ok := fmt.Sprintf("(and (<= (to_real %s) %s) (< %s (+ (to_real %s) 1.0)))", c.Name, v.Name, v.Name, c.Name)
		if e.sol.CheckWith("(not "+ok+")") == "unsat" {
			e.floorLemmas++
			e.floorCache[v.Name] = c
			return c
		}
	}
	if !linDiv {
		t := e.def(Sort{K: SInt}, "(to_int "+v.Name+")")
		if v.RBnd && math.Abs(v.RLo) < 1e18 && math.Abs(v.RHi) < 1e18 {
			t = &Term{Name: t.Name, Sort: t.Sort, Lo: int64(math.Floor(v.RLo)), Hi: int64(math.Floor(v.RHi)), Bnd: true}
		}
		e.floorCache[v.Name] = t
		return t
	}
	t := e.fresh("fi", Sort{K: SInt})
	e.sol.Send(fmt.Sprintf("(assert (and (<= (to_real %s) %s) (< %s (+ (to_real %s) 1.0))))", t.Name, v.Name, v.Name, t.Name))
	if v.RBnd && math.Abs(v.RLo) < 1e18 && math.Abs(v.RHi) < 1e18 {
		t.Lo, t.Hi, t.Bnd = int64(math.Floor(v.RLo)), int64(math.Floor(v.RHi)), true
	}
	e.floorCache[v.Name] = t
	return t
}

// ---------- mixed-radix decomposition for division by constants (INT mode) ----------
//
// For a non-negative dividend x and the chain of constant divisors c1 > c2 > ... > ck met so far (each dividing
// the previous one) the engine keeps fresh integers D0..Dk with
//     x = D0*c1 + D1*c2 + ... + D(k-1)*ck + Dk,   0 <= Dj < c(j)/c(j+1)   (c(k+1) = 1)
// so that every x / cj and x % cj is a linear expression with small coefficients. A new constant that fits the
// divisibility chain splits one digit in two (one linear equation); one that does not fit falls back to div/mod.
type radix struct {
	x  *Term
	cs []int64
	ds []Int
}

func (e *Exec) radixFor(x Int) *radix {
	if r, ok := e.radixes[x.S.Name]; ok {
		return r
	}
	r := &radix{x: x.S, ds: []Int{x}}
	e.radixes[x.S.Name] = r
	return r
}

// insert makes c a member of the chain; false if c does not fit.
func (e *Exec) radixInsert(r *radix, c int64) bool {
	t := 0
	for t < len(r.cs) && r.cs[t] > c {
		t++
	}
	if t < len(r.cs) && r.cs[t] == c {
		return true
	}
	if t > 0 && r.cs[t-1]%c != 0 {
		return false
	}
	below := int64(1)
	if t < len(r.cs) {
		below = r.cs[t]
	}
	if c%below != 0 {
		return false
	}
	old := r.ds[t]
	ol, oh, ook := e.ival(old)
	if !ook || ol < 0 {
		return false
	}
	f := c / below // old = hi*f + lo, 0 <= lo < f
	hiT := e.fresh("d", Sort{K: SInt})
	loT := e.fresh("d", Sort{K: SInt})
	ot := e.intTerm(old)
	e.sol.Send(fmt.Sprintf("(assert (= %s (+ (* %d %s) %s)))", ot.Name, f, hiT.Name, loT.Name))
	e.sol.Send(fmt.Sprintf("(assert (and (>= %s 0) (< %s %d) (>= %s %d) (<= %s %d)))", loT.Name, loT.Name, f, hiT.Name, ol/f, hiT.Name, oh/f))
	hi := e.mkSym(hiT, old.W, old.Sg, ol/f, oh/f, true)
	lo := e.mkSym(loT, old.W, old.Sg, 0, min64(oh, f-1), true)
	if hi.S == nil {
		e.sol.Send(fmt.Sprintf("(assert (= %s %d))", hiT.Name, hi.C))
	}
	if lo.S == nil {
		e.sol.Send(fmt.Sprintf("(assert (= %s %d))", loT.Name, lo.C))
	}
	ncs := append(append(append([]int64{}, r.cs[:t]...), c), r.cs[t:]...)
	nds := append(append(append([]Int{}, r.ds[:t]...), hi, lo), r.ds[t+1:]...)
	r.cs, r.ds = ncs, nds
	e.radixSplits++
	return true
}

// A tagged term stands for the digit range  sum{ ds[m]*coef(m)/unit : lo <= coef(m) < hiEx }  of its decomposition
// (hiEx == 0 means no upper limit). X itself is (0,1,1); X mod c is (c,1,1); X div c is (0,c,c); (X div c)*c is (0,c,1).
func (e *Exec) radixRange(r *radix, hiEx, lo, unit int64, w uint8, sg bool) Int {
	acc := Int{W: w, Sg: sg}
	for m := range r.ds {
		coef := int64(1)
		if m < len(r.cs) {
			coef = r.cs[m]
		}
		if coef < lo || (hiEx != 0 && coef >= hiEx) {
			continue
		}
		term := e.intBin(token.MUL, r.ds[m], Int{W: w, Sg: sg, C: coef / unit})
		acc = e.intBin(token.ADD, acc, term)
	}
	if acc.S != nil {
		nt := *acc.S
		nt.Rad, nt.RadHi, nt.RadLo, nt.RadUnit = r, hiEx, lo, unit
		nt.Base, nt.Off = nil, 0
		acc.S = &nt
	}
	return acc
}

func (e *Exec) radixTag(x Int) (*radix, int64, int64, int64) {
	if x.S.Rad != nil {
		return x.S.Rad, x.S.RadHi, x.S.RadLo, x.S.RadUnit
	}
	if _, ok := e.radixes[x.S.Name]; !ok && x.S.Sum != nil {
		e.radixFromSum(x)
	}
	if _, ok := e.radixes[x.S.Name]; !ok && x.S.Sum != nil {
		e.radixFromProducts(x)
	}
	return e.radixFor(x), 0, 1, 1
}

// radixFromProducts: x = d1*c1 + d2*c2 + ... + dk*ck + rest with constants c1 > c2 > ... > ck, each dividing the
// previous one, 0 <= d(j) < c(j-1)/c(j) for j > 1, d1 >= 0 and 0 <= rest < ck is a positional number whose digits
// are the given terms: register that decomposition instead of introducing fresh digits (e.g. a timecode
// h*Hour + m*Minute + s*Second + ns read from its fields).
func (e *Exec) radixFromProducts(x Int) {
	type part struct {
		d Int
		c int64
	}
	var ps []part
	rest := Int{W: x.W, Sg: x.Sg}
	for _, a := range x.S.Sum {
		if a.S != nil && a.S.MulOf != nil && a.S.MulC > 1 {
			ps = append(ps, part{Int{W: x.W, Sg: x.Sg, S: a.S.MulOf}, a.S.MulC})
		} else {
			rest = e.intBin(token.ADD, rest, a)
		}
	}
	if len(ps) == 0 {
		return
	}
	sort.Slice(ps, func(i, j int) bool { return ps[i].c > ps[j].c })
	for i := range ps {
		lo, hi, ok := e.ival(ps[i].d)
		if !ok || lo < 0 {
			return
		}
		if i > 0 {
			if ps[i].c == ps[i-1].c || ps[i-1].c%ps[i].c != 0 || hi >= ps[i-1].c/ps[i].c {
				return
			}
		}
	}
	rl, rh, rok := e.ival(rest)
	if !rok || rl < 0 || rh >= ps[len(ps)-1].c {
		return
	}
	r := &radix{x: x.S}
	for _, p := range ps {
		r.cs = append(r.cs, p.c)
		r.ds = append(r.ds, p.d)
	}
	r.ds = append(r.ds, rest)
	e.radixes[x.S.Name] = r
	e.radixDerived++
}

// radixFromSum: x = (top digit range of some decomposition, unit 1, down to coefficient lo) + rest with
// 0 <= rest < lo is again a mixed-radix number sharing the high digits; register that decomposition for x.
func (e *Exec) radixFromSum(x Int) {
	var r *radix
	type rng struct{ hi, lo int64 }
	var rs []rng
	var others []Int
	for _, a := range x.S.Sum {
		if a.S != nil && a.S.Rad != nil && a.S.RadUnit == 1 && (r == nil || r == a.S.Rad) {
			r = a.S.Rad
			rs = append(rs, rng{a.S.RadHi, a.S.RadLo})
		} else {
			others = append(others, a)
		}
	}
	if r == nil {
		return
	}
	// chain the ranges from the top
	cur := int64(0) // current lower bound; 0 = nothing yet (top is hiEx == 0)
	used := make([]bool, len(rs))
	for n := 0; n < len(rs); n++ {
		found := false
		for i, g := range rs {
			if !used[i] && g.hi == cur {
				used[i], cur, found = true, g.lo, true
				break
			}
		}
		if !found {
			return
		}
	}
	lo := cur
	if lo <= 1 {
		return
	}
	rest := Int{W: x.W, Sg: x.Sg}
	for _, o := range others {
		rest = e.intBin(token.ADD, rest, o)
	}
	rl, rh, rok := e.ival(rest)
	if !rok || rl < 0 || rh >= lo {
		return
	}
	idx := -1
	for m, c := range r.cs {
		if c == lo {
			idx = m
		}
	}
	if idx < 0 {
		return
	}
	r2 := &radix{x: x.S, cs: append([]int64{}, r.cs[:idx+1]...)}
	r2.ds = append(append([]Int{}, r.ds[:idx+1]...), rest)
	e.radixes[x.S.Name] = r2
	e.radixDerived++
}

func (e *Exec) radixDivMod(x Int, k int64) (Int, Int, bool) {
	if x.S == nil || k <= 0 {
		return Int{}, Int{}, false
	}
	r, hiEx, lo, unit := e.radixTag(x)
	c, ok := mulOv(unit, k)
	if !ok {
		return Int{}, Int{}, false
	}
	if !e.radixInsert(r, c) {
		return Int{}, Int{}, false
	}
	// quotient: digits with coef >= c, scaled by c ; remainder: digits with coef < c, same unit
	var q, rem Int
	if hiEx != 0 && c >= hiEx {
		q = Int{W: x.W, Sg: x.Sg}
	} else {
		q = e.radixRange(r, hiEx, max64(lo, c), c, x.W, x.Sg)
	}
	if c <= lo {
		rem = Int{W: x.W, Sg: x.Sg}
	} else {
		nh := c
		if hiEx != 0 && hiEx < c {
			nh = hiEx
		}
		rem = e.radixRange(r, nh, lo, unit, x.W, x.Sg)
	}
	return q, rem, true
}

// radixMulConst: (tagged value) * k keeps the tag when k divides the unit.
func (e *Exec) radixMulConst(x Int, k int64) (Int, bool) {
	if x.S == nil || x.S.Rad == nil || k <= 0 || x.S.RadUnit%k != 0 {
		return Int{}, false
	}
	return e.radixRange(x.S.Rad, x.S.RadHi, x.S.RadLo, x.S.RadUnit/k, x.W, x.Sg), true
}

// checkInterval (self-check mode VERIF_CHECKIVAL=1): the solver must agree that the term cannot leave the interval the
// engine derived for it under the current path condition; a disagreement is an engine bug.
func (e *Exec) checkInterval(t *Term, w uint8, sg bool, lo, hi int64) {
	var q string
	if t.Sort.K == SInt {
		q = fmt.Sprintf("(or (< %s %s) (> %s %s))", t.Name, intLit(lo), t.Name, intLit(hi))
	} else if t.Sort.K == SBV {
		lt, gt := "bvult", "bvugt"
		if sg {
			lt, gt = "bvslt", "bvsgt"
		}
		q = fmt.Sprintf("(or (%s %s %s) (%s %s %s))", lt, t.Name, bvLit(uint64(lo), t.Sort.W), gt, t.Name, bvLit(uint64(hi), t.Sort.W))
	} else {
		return
	}
	e.ivalChecks++
	if r := e.sol.CheckWith(q); r == "sat" {
		panic(fmt.Sprintf("INTERVAL-SELF-CHECK failed: term %s may leave [%d,%d]", t.Name, lo, hi))
	}
}
