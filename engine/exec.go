package main

import (
	"fmt"
	"go/constant"
	"go/token"
	"go/types"
	"math"
	"os"
	"strings"
	"sync"
	"time"

	"golang.org/x/tools/go/ssa"
)

type Decision struct {
	Kind  uint8 // 0 branch, 1 choose, 2 concretise
	Val   int64
	Taken bool
}

type VecEntry struct {
	Kind string // "choose", "int", "bool", "byte"
	Val  int64  // concrete value (choose) or filled from the model
	Name string // solver constant, "" if concrete
	W    uint8
	Sg   bool
}

type Violation struct {
	Harness string
	Label   string
	Kind    string // "assert", "panic"
	Msg     string
	Pos     string
	Vec     []VecEntry
	Trace   []Decision
	Model   map[string]string
}

type Exec struct {
	wantWitness func() bool
	witness     []VecEntry
	witReq      bool
	flagCells   map[string]*Value // command-line flags registered by the CLI package's initialiser
	cliCmd      string
	P    *Program
	sol  *Solver
	mode Mode
	tier string

	// per path
	prefix    []Decision
	pos       int
	trace     []Decision
	siblings  [][]Decision
	vec       []VecEntry
	nterm     int
	steps     int
	maxSteps  int
	pathStart  time.Time
	pathBudget time.Duration
	depth     int
	wraps     int
	nonlinear int
	assumed   bool
	reached   map[string]bool
	asserts   map[string]int
	sawAssert bool
	symAssert bool
	viols     []Violation
	undecided []string
	unknowns  int
	bounds    map[string]int
	mapOrder  bool
	notes     []string
	curPos    token.Pos
	curInstr  ssa.Instruction
	stack     []*ssa.Function
	quotSplits int
	pcDirty   bool
	observed  []string
	tables    map[*Value]string
	ivalChecks int
	extraSolvers map[string]*Solver
	fallbacks []string
	fallbackMs int
	fbQueries, fbDecided int
	fbTime    time.Duration
	pools     map[*Value][]Value
	syncMaps  map[*Value]*Map
	roundings [][2]string
	defCache  map[string]string
	radixDerived int
	floorLemmas int
	radixes   map[string]*radix
	radixSplits int
	digitIdent int
	divCache  map[string][2]Int
	floorCache map[string]*Term
	solBV     *Solver
	solINT    *Solver
	known     map[string]bool
	refine    map[string][2]int64

	globals   map[*ssa.Global]*Value
	initDone  map[*ssa.Package]bool
	frozen    map[*Value]bool
	checkFrz  bool
	funcsSeen map[string]bool
	intrUsed  map[string]bool
	hname     string
	fltFresh  int
	frozenMaps map[*Map]bool
	locCell   *Value
	inInit    bool
	stubsUsed map[string]bool
}

type deferred struct {
	fn   Value
	args []Value
	site *ssa.Defer
}

type frame struct {
	e      *Exec
	fn     *ssa.Function
	block  *ssa.BasicBlock
	prev   *ssa.BasicBlock
	env    map[ssa.Value]Value
	defers []deferred
	result Value
}

func (e *Exec) posStr(p token.Pos) string {
	if !p.IsValid() {
		return "?"
	}
	ps := e.P.Prog.Fset.Position(p)
	return fmt.Sprintf("%s:%d", shortPath(ps.Filename), ps.Line)
}

func shortPath(f string) string {
	if i := strings.Index(f, "/pkg/mod/"); i >= 0 {
		return f[i+9:]
	}
	if strings.HasPrefix(f, "/repo/") {
		return f[6:]
	}
	return f
}

// ---------- path condition, branching ----------

func (e *Exec) assertT(t *Term) {
	e.pcDirty = true
	e.sol.Send("(assert " + t.Name + ")")
	e.known[t.Name] = true
	if len(t.Name) > 5 && t.Name[:5] == "(not " {
		e.known[t.Name[5:len(t.Name)-1]] = false
	} else {
		e.known["(not "+t.Name+")"] = false
	}
	e.learn(t)
}

func (e *Exec) assume(b Bool) {
	if b.S == nil {
		if !b.C {
			panic(pathStop{kind: "infeasible"})
		}
		return
	}
	e.assertT(b.S)
}

// feasible asks whether pc ∧ t is satisfiable; unknown counts as feasible.
func (e *Exec) feasible(t *Term) bool {
	r := e.sol.CheckWith(t.Name)
	if slowLog && e.sol.lastDur > time.Second {
		fmt.Fprintf(os.Stderr, "SLOW %.1fs feasibility %s -> %s at %s\n", e.sol.lastDur.Seconds(), t.Name, r, e.posStr(e.curPos))
	}
	if r == "unknown" {
		e.unknowns++
	}
	return r != "unsat"
}

// branch decides a (possibly symbolic) condition, forking the exploration when both sides are feasible.
func (e *Exec) branch(b Bool) bool {
	if b.S == nil {
		return b.C
	}
	if v, ok := e.known[b.S.Name]; ok {
		return v
	}
	if e.pos < len(e.prefix) {
		d := e.prefix[e.pos]
		e.pos++
		e.trace = append(e.trace, d)
		if d.Taken {
			e.assertT(b.S)
		} else {
			e.assertT(e.not(b).S)
		}
		return d.Taken
	}
	e.pos++
	nb := e.not(b)
	if !e.feasible(b.S) {
		e.trace = append(e.trace, Decision{Taken: false})
		e.assertT(nb.S)
		return false
	}
	if e.feasible(nb.S) {
		sib := append(append([]Decision{}, e.trace...), Decision{Taken: false})
		e.siblings = append(e.siblings, sib)
	}
	e.trace = append(e.trace, Decision{Taken: true})
	e.assertT(b.S)
	return true
}

func (e *Exec) choose(n int) int {
	if n <= 0 {
		panic(pathStop{kind: "infeasible", msg: "choose(0)"})
	}
	var v int
	if e.pos < len(e.prefix) {
		d := e.prefix[e.pos]
		e.pos++
		e.trace = append(e.trace, d)
		v = int(d.Val)
	} else {
		e.pos++
		for i := n - 1; i >= 1; i-- {
			sib := append(append([]Decision{}, e.trace...), Decision{Kind: 1, Val: int64(i)})
			e.siblings = append(e.siblings, sib)
		}
		e.trace = append(e.trace, Decision{Kind: 1, Val: 0})
		v = 0
	}
	return v
}

// concretize turns a symbolic integer into a concrete one by enumerating its feasible values (forking).
func (e *Exec) concretize(x Int) int64 {
	if x.S == nil {
		return x.C
	}
	for {
		if e.pos < len(e.prefix) {
			d := e.prefix[e.pos]
			e.pos++
			e.trace = append(e.trace, d)
			c := e.intCmp(token.EQL, x, normInt(Int{W: x.W, Sg: x.Sg, C: d.Val}))
			if d.Taken {
				e.assume(c)
				return d.Val
			}
			e.assume(e.not(c))
			continue
		}
		e.pos++
		r := e.sol.Check()
		if r != "sat" {
			if r == "unknown" {
				e.unknowns++
				panic(pathStop{kind: "undecided", msg: "concretize: solver unknown"})
			}
			panic(pathStop{kind: "infeasible"})
		}
		vals, err := e.sol.GetValues([]string{x.S.Name})
		if err != nil {
			panic(pathStop{kind: "undecided", msg: "concretize: " + err.Error()})
		}
		v, ok := parseModelInt(vals[x.S.Name], x.W, x.Sg)
		if !ok {
			panic(pathStop{kind: "undecided", msg: "concretize: cannot parse " + vals[x.S.Name]})
		}
		c := e.intCmp(token.EQL, x, normInt(Int{W: x.W, Sg: x.Sg, C: v}))
		if c.S != nil && e.feasible(e.not(c).S) {
			sib := append(append([]Decision{}, e.trace...), Decision{Kind: 2, Val: v, Taken: false})
			e.siblings = append(e.siblings, sib)
		}
		e.trace = append(e.trace, Decision{Kind: 2, Val: v, Taken: true})
		e.assume(c)
		return v
	}
}

func (e *Exec) concInt(v Value) int {
	return int(e.concretize(v.(Int)))
}

// check records a violation if pc ∧ ¬ok is satisfiable, then continues under ok.
func (e *Exec) check(ok Bool, kind, label, msg string) {
	if ok.S == nil {
		if ok.C {
			return
		}
		// definitely violated on this path: need pc feasible (it is, by construction, unless unknowns)
		r := e.sol.Check()
		if r == "sat" {
			e.recordViolation(kind, label, msg)
		} else if r == "unknown" {
			e.unknowns++
			e.undecided = append(e.undecided, fmt.Sprintf("%s %q: solver unknown on path feasibility", kind, label))
		}
		panic(pathStop{kind: "violated"})
	}
	nb := e.not(ok)
	e.sol.Push()
	e.sol.Send("(assert " + nb.S.Name + ")")
	r := e.sol.Check()
	if slowLog && e.sol.lastDur > time.Second {
		fmt.Fprintf(os.Stderr, "SLOW %.1fs %s %q -> %s at %s\n", e.sol.lastDur.Seconds(), kind, label, r, e.posStr(e.curPos))
	}
	if r == "unknown" {
		// second opinion: the same context, one-shot, on the other solvers (no incremental overhead, longer limit)
		ctx := e.sol.Context()
		var names []string
		for _, v := range e.vec {
			if v.Name != "" {
				names = append(names, v.Name)
			}
		}
		for _, alt := range e.fallbacks {
			t0 := time.Now()
			r2, vals := oneShot(alt, ctx, names, e.fallbackMs)
			e.fbQueries++
			e.fbTime += time.Since(t0)
			if slowLog {
				fmt.Fprintf(os.Stderr, "FALLBACK %s %.1fs %q -> %s\n", alt, time.Since(t0).Seconds(), label, r2)
			}
			if r2 == "unsat" {
				r = "unsat"
				e.fbDecided++
				e.sol.Unknown--
				e.sol.Unsat++
				break
			}
			if r2 == "sat" {
				r = "sat-fallback"
				e.fbDecided++
				e.sol.Unknown--
				e.sol.Sat++
				e.recordViolationVals(kind, label, msg, vals)
				break
			}
		}
	}
	if r == "sat" {
		e.recordViolation(kind, label, msg)
	} else if r == "unknown" {
		e.unknowns++
		e.undecided = append(e.undecided, fmt.Sprintf("%s %q at %s: solver unknown (%s)", kind, label, e.posStr(e.curPos), e.sol.lastErr))
	}
	e.sol.Pop()
	e.assertT(ok.S)
	if r == "sat" || r == "sat-fallback" {
		// continue only if the rest of the path is still feasible
		if e.sol.Check() == "unsat" {
			panic(pathStop{kind: "violated"})
		}
	}
}

func (e *Exec) recordViolation(kind, label, msg string) {
	var names []string
	for _, v := range e.vec {
		if v.Name != "" {
			names = append(names, v.Name)
		}
	}
	vals, err := e.sol.GetValues(names)
	if err != nil {
		e.undecided = append(e.undecided, fmt.Sprintf("%s %q: model extraction failed: %v", kind, label, err))
		return
	}
	e.recordViolationVals(kind, label, msg, vals)
}

// modelVec fills the input vector of the current path from a solver model.
func (e *Exec) modelVec(vals map[string]string) ([]VecEntry, string) {
	vec := make([]VecEntry, len(e.vec))
	copy(vec, e.vec)
	for i := range vec {
		if vec[i].Name != "" {
			v, ok := parseModelInt(vals[vec[i].Name], vec[i].W, vec[i].Sg)
			if !ok && vec[i].Kind == "bool" {
				if vals[vec[i].Name] == "true" {
					v, ok = 1, true
				} else if vals[vec[i].Name] == "false" {
					v, ok = 0, true
				}
			}
			if !ok {
				return nil, vals[vec[i].Name]
			}
			vec[i].Val = v
		}
	}
	return vec, ""
}

// captureWitness asks the solver for one concrete input that follows the completed path (used to cross-validate the
// engine against the natively compiled harness).
func (e *Exec) captureWitness() {
	e.witness = nil
	if e.sol.Check() != "sat" {
		return
	}
	var names []string
	for _, v := range e.vec {
		if v.Name != "" {
			names = append(names, v.Name)
		}
	}
	vals := map[string]string{}
	if len(names) > 0 {
		var err error
		if vals, err = e.sol.GetValues(names); err != nil {
			return
		}
	}
	if vec, bad := e.modelVec(vals); bad == "" {
		e.witness = vec
		if e.witness == nil {
			e.witness = []VecEntry{}
		}
	}
}

func (e *Exec) recordViolationVals(kind, label, msg string, vals map[string]string) {
	vec, bad := e.modelVec(vals)
	if bad != "" {
		e.undecided = append(e.undecided, fmt.Sprintf("%s %q: cannot parse model value %q", kind, label, bad))
		return
	}
	e.viols = append(e.viols, Violation{Harness: e.hname, Label: label, Kind: kind, Msg: msg, Pos: e.posStr(e.curPos),
		Vec: vec, Trace: append([]Decision{}, e.trace...), Model: vals})
}

func parseModelInt(s string, w uint8, sg bool) (int64, bool) {
	s = strings.TrimSpace(s)
	if s == "" {
		return 0, false
	}
	var u uint64
	switch {
	case strings.HasPrefix(s, "#x"):
		_, err := fmt.Sscanf(s[2:], "%x", &u)
		if err != nil {
			return 0, false
		}
	case strings.HasPrefix(s, "#b"):
		_, err := fmt.Sscanf(s[2:], "%b", &u)
		if err != nil {
			return 0, false
		}
	case strings.HasPrefix(s, "(_ bv"):
		_, err := fmt.Sscanf(s[5:], "%d", &u)
		if err != nil {
			return 0, false
		}
	case strings.HasPrefix(s, "(-"):
		var v int64
		t := strings.TrimSpace(strings.TrimSuffix(strings.TrimPrefix(s, "(-"), ")"))
		_, err := fmt.Sscanf(t, "%d", &v)
		if err != nil {
			return 0, false
		}
		return -v, true
	default:
		var v int64
		_, err := fmt.Sscanf(s, "%d", &v)
		if err != nil {
			if _, err2 := fmt.Sscanf(s, "%d", &u); err2 == nil {
				return int64(u), true
			}
			return 0, false
		}
		return v, true
	}
	x := normInt(Int{W: w, Sg: sg, C: int64(u)})
	return x.C, true
}

// ---------- interpreter ----------

func (e *Exec) global(g *ssa.Global) *Value {
	if p, ok := e.globals[g]; ok {
		return p
	}
	if g.Pkg != nil && !e.initDone[g.Pkg] {
		// global of a package whose initialiser is not executed: only error sentinels are materialised
		elem := g.Type().(*types.Pointer).Elem()
		if g.Pkg.Pkg.Path() == "time" && (g.Name() == "UTC" || g.Name() == "Local") {
			// time model: a nil location is UTC, the local location is an opaque cell
			p := new(Value)
			if g.Name() == "Local" {
				*p = e.localLoc()
			} else {
				*p = (*Value)(nil)
			}
			e.globals[g] = p
			return p
		}
		if types.Identical(elem, errorType) {
			p := new(Value)
			*p = e.newError(g.Pkg.Pkg.Path() + "." + g.Name())
			e.globals[g] = p
			return p
		}
		panic(unsupported("global of uninitialised package: " + g.String()))
	}
	p := new(Value)
	*p = zero(g.Type().(*types.Pointer).Elem())
	e.globals[g] = p
	return p
}

var errorType = types.Universe.Lookup("error").Type()

// newError builds an opaque non-nil error value.
func (e *Exec) newError(msg string) Value {
	cell := new(Value)
	*cell = Struct{Str{C: msg}}
	return Iface{T: e.errStringPtrType(), V: cell}
}

func (e *Exec) errStringPtrType() types.Type {
	pkg := e.P.ByPath["errors"]
	return types.NewPointer(pkg.Type("errorString").Type())
}

func (fr *frame) get(v ssa.Value) Value {
	switch v := v.(type) {
	case nil:
		return nil
	case *ssa.Const:
		return constValue(v)
	case *ssa.Global:
		return fr.e.global(v)
	case *ssa.Function, *ssa.Builtin:
		return v
	}
	if r, ok := fr.env[v]; ok {
		return r
	}
	panic(fmt.Sprintf("get: no value for %T %v in %s", v, v.Name(), fr.fn))
}

func constValue(c *ssa.Const) Value {
	t := c.Type()
	if c.Value == nil {
		return zero(t)
	}
	if b, ok := t.Underlying().(*types.Basic); ok {
		switch {
		case b.Info()&types.IsBoolean != 0:
			return Bool{C: constant.BoolVal(c.Value)}
		case b.Info()&types.IsInteger != 0:
			w, sg := intKind(t)
			var v int64
			if sg {
				v = c.Int64()
			} else {
				v = int64(c.Uint64())
			}
			return normInt(Int{W: w, Sg: sg, C: v})
		case b.Info()&types.IsFloat != 0:
			w := uint8(64)
			if b.Kind() == types.Float32 {
				w = 32
				return Float{W: w, C: float64(float32(c.Float64()))}
			}
			return Float{W: w, C: c.Float64()}
		case b.Info()&types.IsString != 0:
			if c.Value.Kind() == constant.String {
				return Str{C: constant.StringVal(c.Value)}
			}
			return Str{C: string(rune(c.Int64()))}
		}
	}
	panic(unsupported(fmt.Sprintf("constant %v of type %v", c, t)))
}

const maxDepth = 200

func (e *Exec) call(fn Value, args []Value, site ssa.Instruction) Value {
	switch fn := fn.(type) {
	case *ssa.Function:
		return e.callFn(fn, args, nil, site)
	case *Closure:
		return e.callFn(fn.Fn, args, fn.Env, site)
	case *ssa.Builtin:
		return e.builtin(fn, args, site)
	case NilFunc:
		panic(goPanic{msg: "call of nil func"})
	case *intrinsicFn:
		return fn.f(e, args)
	}
	panic(fmt.Sprintf("call: bad fn %T", fn))
}

type intrinsicFn struct {
	name string
	f    func(e *Exec, args []Value) Value
}

func (e *Exec) callFn(fn *ssa.Function, args []Value, env []Value, site ssa.Instruction) Value {
	name := fn.String()
	if fn.Pkg == e.P.Main || (fn.Pkg == nil && fn.Origin() == nil && fn.Synthetic == "") {
		if prim, ok := prims[fn.Name()]; ok && fn.Pkg == e.P.Main {
			return prim(e, args)
		}
	}
	if in, ok := intrinsics[name]; ok {
		if r, handled := in(e, args); handled {
			e.intrUsed[name] = true
			return r
		}
	}
	if fn.Synthetic == "package initializer" && fn.Pkg != nil {
		if fn.Pkg != e.P.Main && !initWhitelist[fn.Pkg.Pkg.Path()] {
			return nil
		}
		e.initDone[fn.Pkg] = true
	}
	if fn.Blocks == nil {
		panic(unsupported("function without body: " + name))
	}
	if !e.funcsSeen[name] {
		e.funcsSeen[name] = true
	}
	e.depth++
	if e.depth > maxDepth {
		panic(pathStop{kind: "unwind", msg: "call depth exceeded in " + name})
	}
	e.stack = append(e.stack, fn)
	fr := &frame{e: e, fn: fn, env: make(map[ssa.Value]Value, 16)}
	for i, p := range fn.Params {
		fr.env[p] = args[i]
	}
	for i, fv := range fn.FreeVars {
		fr.env[fv] = env[i]
	}
	fr.block = fn.Blocks[0]
	for fr.block != nil {
		fr.runBlock()
	}
	e.depth--
	e.stack = e.stack[:len(e.stack)-1]
	return fr.result
}

func (fr *frame) runBlock() {
	e := fr.e
	b := fr.block
	// phis first, evaluated simultaneously
	nphi := 0
	if fr.prev != nil {
		var idx = -1
		for i, p := range b.Preds {
			if p == fr.prev {
				idx = i
				break
			}
		}
		var vals []Value
		for _, in := range b.Instrs {
			phi, ok := in.(*ssa.Phi)
			if !ok {
				break
			}
			vals = append(vals, fr.get(phi.Edges[idx]))
			nphi++
		}
		for i := 0; i < nphi; i++ {
			fr.env[b.Instrs[i].(*ssa.Phi)] = vals[i]
		}
	}
	for _, in := range b.Instrs[nphi:] {
		e.steps++
		if e.steps > e.maxSteps {
			panic(pathStop{kind: "unwind", msg: fmt.Sprintf("instruction budget %d exceeded in %s", e.maxSteps, fr.fn)})
		}
		// wall-clock budget of one path: a loop whose every iteration stays feasible (and costs solver time) would
		// otherwise run for hours before the instruction budget is reached
		if e.steps&255 == 0 && e.pathBudget > 0 && time.Since(e.pathStart) > e.pathBudget {
			panic(pathStop{kind: "unwind", msg: fmt.Sprintf("path time budget %v exceeded after %d instructions in %s", e.pathBudget, e.steps, fr.fn)})
		}
		if p := in.Pos(); p.IsValid() {
			e.curPos = p
		}
		e.curInstr = in
		if fr.visit(in) {
			return
		}
	}
	panic("block fell through: " + fr.fn.String())
}

// visit returns true when control left the block.
func (fr *frame) visit(instr ssa.Instruction) bool {
	e := fr.e
	switch in := instr.(type) {
	case *ssa.DebugRef:
	case *ssa.UnOp:
		fr.env[in] = e.unop(in, fr.get(in.X))
	case *ssa.BinOp:
		fr.env[in] = e.binop(in.Op, in.X.Type(), fr.get(in.X), fr.get(in.Y))
	case *ssa.Call:
		fn, args := fr.prepareCall(&in.Call)
		fr.env[in] = e.call(fn, args, in)
	case *ssa.ChangeInterface:
		fr.env[in] = fr.get(in.X)
	case *ssa.ChangeType:
		fr.env[in] = fr.get(in.X)
	case *ssa.Convert:
		fr.env[in] = e.conv(in.Type(), in.X.Type(), fr.get(in.X))
	case *ssa.MakeInterface:
		fr.env[in] = Iface{T: in.X.Type(), V: fr.get(in.X)}
	case *ssa.Extract:
		fr.env[in] = fr.get(in.Tuple).(Tuple)[in.Index]
	case *ssa.Slice:
		fr.env[in] = e.sliceOp(in, fr.get(in.X), fr.get(in.Low), fr.get(in.High), fr.get(in.Max))
	case *ssa.Return:
		switch len(in.Results) {
		case 0:
		case 1:
			fr.result = fr.get(in.Results[0])
		default:
			res := make(Tuple, len(in.Results))
			for i, r := range in.Results {
				res[i] = fr.get(r)
			}
			fr.result = res
		}
		fr.block = nil
		return true
	case *ssa.RunDefers:
		for i := len(fr.defers) - 1; i >= 0; i-- {
			d := fr.defers[i]
			e.call(d.fn, d.args, d.site)
		}
		fr.defers = nil
	case *ssa.Panic:
		v := fr.get(in.X)
		panic(goPanic{msg: "explicit panic: " + e.describe(v)})
	case *ssa.Store:
		p := fr.get(in.Addr)
		e.store(p, fr.get(in.Val))
	case *ssa.If:
		c := fr.get(in.Cond).(Bool)
		succ := 1
		if e.branch(c) {
			succ = 0
		}
		fr.prev, fr.block = fr.block, fr.block.Succs[succ]
		return true
	case *ssa.Jump:
		fr.prev, fr.block = fr.block, fr.block.Succs[0]
		return true
	case *ssa.Defer:
		fn, args := fr.prepareCall(&in.Call)
		fr.defers = append(fr.defers, deferred{fn, args, in})
	case *ssa.Alloc:
		addr := new(Value)
		*addr = zero(in.Type().(*types.Pointer).Elem())
		fr.env[in] = addr
	case *ssa.MakeSlice:
		n := e.concInt(fr.get(in.Len))
		c := e.concInt(fr.get(in.Cap))
		if n < 0 || c < n {
			panic(goPanic{msg: "makeslice: len out of range"})
		}
		if c > 1<<22 {
			panic(unsupported("makeslice too large"))
		}
		elt := in.Type().Underlying().(*types.Slice).Elem()
		b := make([]Value, c)
		for i := range b {
			b[i] = zero(elt)
		}
		fr.env[in] = Slice{B: b, N: n}
	case *ssa.MakeMap:
		fr.env[in] = &Map{idx: map[interface{}]int{}}
	case *ssa.Range:
		fr.env[in] = e.rangeIter(fr.get(in.X))
	case *ssa.Next:
		fr.env[in] = e.next(fr.get(in.Iter), in)
	case *ssa.FieldAddr:
		p := e.derefPtr(fr.get(in.X))
		fr.env[in] = &(*p).(Struct)[in.Field]
	case *ssa.Field:
		fr.env[in] = fr.get(in.X).(Struct)[in.Field]
	case *ssa.IndexAddr:
		fr.env[in] = e.indexAddr(fr.get(in.X), fr.get(in.Index).(Int))
	case *ssa.Index:
		fr.env[in] = e.index(fr.get(in.X), fr.get(in.Index).(Int))
	case *ssa.Lookup:
		fr.env[in] = e.lookup(in, fr.get(in.X), fr.get(in.Index))
	case *ssa.MapUpdate:
		m := fr.get(in.Map).(*Map)
		if m == nil {
			panic(goPanic{msg: "assignment to entry in nil map"})
		}
		e.mapSet(m, fr.get(in.Key), copyVal(fr.get(in.Value)))
	case *ssa.TypeAssert:
		fr.env[in] = e.typeAssert(in, fr.get(in.X).(Iface))
	case *ssa.MakeClosure:
		var b []Value
		for _, x := range in.Bindings {
			b = append(b, fr.get(x))
		}
		fr.env[in] = &Closure{Fn: in.Fn.(*ssa.Function), Env: b}
	case *ssa.SliceToArrayPointer:
		panic(unsupported("SliceToArrayPointer"))
	default:
		panic(unsupported(fmt.Sprintf("instruction %T", instr)))
	}
	return false
}

func (e *Exec) derefPtr(v Value) *Value {
	switch p := v.(type) {
	case *Value:
		if p == nil {
			panic(goPanic{msg: "nil pointer dereference"})
		}
		return p
	case symElem:
		i := e.concretize(p.idx)
		return &p.base[i]
	}
	panic(fmt.Sprintf("derefPtr: %T", v))
}

func (e *Exec) store(p Value, v Value) {
	ptr := e.derefPtr(p)
	if e.checkFrz && e.frozen[ptr] {
		e.check(Bool{C: false}, "assert", "store to package-level state", "store into object reachable from a package-level variable")
	}
	storeInto(ptr, v)
}

// storeInto assigns v to *ptr in place: structs and arrays are overwritten field by field so that pointers to
// their fields/elements taken earlier keep aliasing the variable (Go semantics).
func storeInto(ptr *Value, v Value) {
	switch nv := v.(type) {
	case Struct:
		if old, ok := (*ptr).(Struct); ok && len(old) == len(nv) {
			for i := range nv {
				storeInto(&old[i], nv[i])
			}
			return
		}
	case Array:
		if old, ok := (*ptr).(Array); ok && len(old) == len(nv) {
			for i := range nv {
				storeInto(&old[i], nv[i])
			}
			return
		}
	}
	*ptr = copyVal(v)
}

func (e *Exec) load(p Value) Value {
	if se, ok := p.(symElem); ok {
		return e.loadSym(se)
	}
	ptr := e.derefPtr(p)
	return copyVal(*ptr)
}

// symElem is the address base[idx] with a symbolic index.
type symElem struct {
	base []Value
	idx  Int
}

func (e *Exec) loadSym(se symElem) Value {
	// ite chain over integer elements; otherwise fork on the index
	allInt := true
	for _, v := range se.base {
		if _, ok := v.(Int); !ok {
			allInt = false
			break
		}
	}
	lo, hi, ok := e.ival(se.idx)
	if !allInt || !ok {
		i := e.concretize(se.idx)
		return copyVal(se.base[i])
	}
	if lo < 0 {
		lo = 0
	}
	if hi > int64(len(se.base)-1) {
		hi = int64(len(se.base) - 1)
	}
	// large constant tables: one SMT array per table and path, lookups are selects
	if hi-lo >= 31 {
		allConc := true
		var vlo, vhi int64
		for i := lo; i <= hi; i++ {
			v := se.base[i].(Int)
			if v.S != nil {
				allConc = false
				break
			}
			if i == lo || v.C < vlo {
				vlo = v.C
			}
			if i == lo || v.C > vhi {
				vhi = v.C
			}
		}
		if allConc {
			el := se.base[lo].(Int)
			key := &se.base[0]
			name, ok := e.tables[key]
			isort, esort := e.intSort(se.idx.W), e.intSort(el.W)
			if !ok {
				e.nterm++
				name = fmt.Sprintf("tab%d", e.nterm)
				e.sol.Send(fmt.Sprintf("(declare-const %s (Array %s %s))", name, isort.String(), esort.String()))
				for i := range se.base {
					iv := e.intTerm(Int{W: se.idx.W, Sg: se.idx.Sg, C: int64(i)})
					ev := e.intTerm(se.base[i].(Int))
					e.sol.Send(fmt.Sprintf("(assert (= (select %s %s) %s))", name, iv.Name, ev.Name))
				}
				e.tables[key] = name
			}
			t := e.def(esort, "(select "+name+" "+se.idx.S.Name+")")
			if el.Sg || vlo >= 0 {
				return e.mkSym(t, el.W, el.Sg, vlo, vhi, true)
			}
			return e.mkSym(t, el.W, el.Sg, 0, 0, false)
		}
	}
	res := se.base[hi].(Int)
	for i := hi - 1; i >= lo; i-- {
		c := e.intCmp(token.EQL, se.idx, Int{W: se.idx.W, Sg: se.idx.Sg, C: i})
		res = e.iteInt(c, se.base[i].(Int), res)
	}
	return res
}

func (e *Exec) boundsCheck(idx Int, n int, what string) {
	if idx.S == nil {
		var bad bool
		if idx.Sg {
			bad = idx.C < 0 || idx.C >= int64(n)
		} else {
			bad = uint64(idx.C) >= uint64(n)
		}
		if bad {
			panic(goPanic{msg: fmt.Sprintf("%s: index %d out of range [0,%d)", what, idx.C, n)})
		}
		return
	}
	ok := e.intCmp(token.LSS, idx, Int{W: idx.W, Sg: idx.Sg, C: int64(n)})
	if idx.Sg {
		ok = e.and(ok, e.intCmp(token.GEQ, idx, Int{W: idx.W, Sg: true, C: 0}))
	}
	e.check(ok, "panic", "index out of range", fmt.Sprintf("%s: symbolic index out of range [0,%d)", what, n))
}

func (e *Exec) indexAddr(x Value, idx Int) Value {
	var base []Value
	switch x := x.(type) {
	case Slice:
		base = x.B[:x.N]
	case *Value:
		if x == nil {
			panic(goPanic{msg: "nil pointer dereference (index of nil *array)"})
		}
		base = (*x).(Array)
	case symElem:
		p := e.derefPtr(x)
		base = (*p).(Array)
	default:
		panic(fmt.Sprintf("indexAddr: %T", x))
	}
	e.boundsCheck(idx, len(base), "index")
	if idx.S != nil {
		return symElem{base: base, idx: idx}
	}
	return &base[idx.C]
}

func (e *Exec) index(x Value, idx Int) Value {
	switch x := x.(type) {
	case Array:
		e.boundsCheck(idx, len(x), "array index")
		if idx.S != nil {
			return e.loadSym(symElem{base: x, idx: idx})
		}
		return copyVal(x[idx.C])
	case Str:
		e.boundsCheck(idx, x.Len(), "string index")
		if idx.S != nil {
			bs := x.Bytes()
			vs := make([]Value, len(bs))
			for i, b := range bs {
				vs[i] = b
			}
			return e.loadSym(symElem{base: vs, idx: idx})
		}
		return x.At(int(idx.C))
	}
	panic(fmt.Sprintf("index: %T", x))
}

func (fr *frame) prepareCall(c *ssa.CallCommon) (Value, []Value) {
	v := fr.get(c.Value)
	var fn Value
	var args []Value
	if c.Method == nil {
		fn = v
	} else {
		recv := v.(Iface)
		if recv.T == nil {
			panic(goPanic{msg: "method " + c.Method.Name() + " invoked on nil interface"})
		}
		if nat, ok := recv.V.(*Native); ok && nat != nil {
			name := c.Method.Name()
			fn = &intrinsicFn{name: nat.Kind + "." + name, f: func(e *Exec, a []Value) Value { return e.nativeMethod(nat, name, a[1:]) }}
		} else {
			f := fr.e.P.Prog.LookupMethod(recv.T, c.Method.Pkg(), c.Method.Name())
			if f == nil {
				panic(fmt.Sprintf("no method %s on %v", c.Method.Name(), recv.T))
			}
			fn = f
		}
		args = append(args, recv.V)
	}
	for _, a := range c.Args {
		args = append(args, fr.get(a))
	}
	return fn, args
}

func (e *Exec) describe(v Value) string {
	switch v := v.(type) {
	case Iface:
		if v.T == nil {
			return "nil"
		}
		return fmt.Sprintf("%v(%s)", v.T, e.describe(v.V))
	case Str:
		if v.IsConc() {
			return fmt.Sprintf("%q", v.Conc())
		}
		return fmt.Sprintf("<symbolic string len %d>", v.Len())
	case Int:
		if v.S == nil {
			return fmt.Sprint(v.C)
		}
		lo, hi, ok := e.ival(v)
		return fmt.Sprintf("<sym int %s in [%d,%d] %v base=%v off=%d>", v.S.Name, lo, hi, ok, v.S.Base != nil, v.S.Off)
	case *Value:
		if v == nil {
			return "nil"
		}
		return "&" + e.describe(*v)
	case Struct:
		var parts []string
		for _, f := range v {
			parts = append(parts, e.describe(f))
		}
		return "{" + strings.Join(parts, " ") + "}"
	}
	return fmt.Sprintf("%T", v)
}

// ---------- operators ----------

func (e *Exec) unop(in *ssa.UnOp, x Value) Value {
	switch in.Op {
	case token.MUL: // load
		return e.load(x)
	case token.NOT:
		return e.not(x.(Bool))
	case token.SUB:
		switch x := x.(type) {
		case Int:
			return e.intNeg(x)
		case Float:
			return e.floatNeg(x)
		}
	case token.XOR:
		return e.intNot(x.(Int))
	case token.ARROW:
		panic(unsupported("channel receive"))
	}
	panic(unsupported(fmt.Sprintf("unop %v on %T", in.Op, x)))
}

func (e *Exec) binop(op token.Token, t types.Type, x, y Value) Value {
	switch x := x.(type) {
	case Int:
		yi := y.(Int)
		switch op {
		case token.EQL, token.NEQ, token.LSS, token.LEQ, token.GTR, token.GEQ:
			return e.intCmp(op, x, yi)
		case token.QUO, token.REM:
			if yi.S != nil {
				nz := e.intCmp(token.NEQ, yi, Int{W: yi.W, Sg: yi.Sg})
				e.check(nz, "panic", "integer divide by zero", "symbolic divisor may be zero")
				if r, ok := e.divSym(op, x, yi); ok {
					return r
				}
			}
		case token.SHL, token.SHR:
			if yi.Sg && yi.S != nil {
				e.check(e.intCmp(token.GEQ, yi, Int{W: yi.W, Sg: true}), "panic", "negative shift amount", "")
			}
		}
		return e.intBin(op, x, yi)
	case Float:
		return e.floatBin(op, x, y.(Float))
	case Str:
		ys := y.(Str)
		switch op {
		case token.ADD:
			return strConcat(x, ys)
		case token.EQL:
			return e.strEq(x, ys)
		case token.NEQ:
			return e.not(e.strEq(x, ys))
		case token.LSS, token.LEQ, token.GTR, token.GEQ:
			return e.strLess(op, x, ys)
		}
	case Bool:
		yb := y.(Bool)
		switch op {
		case token.EQL:
			return e.boolEq(x, yb)
		case token.NEQ:
			return e.not(e.boolEq(x, yb))
		case token.AND:
			return e.and(x, yb)
		case token.OR:
			return e.or(x, yb)
		}
	}
	switch op {
	case token.EQL:
		return e.equals(x, y)
	case token.NEQ:
		return e.not(e.equals(x, y))
	}
	panic(unsupported(fmt.Sprintf("binop %v on %T", op, x)))
}

func (e *Exec) strLess(op token.Token, a, b Str) Bool {
	if a.S == nil && b.S == nil {
		switch op {
		case token.LSS:
			return Bool{C: a.C < b.C}
		case token.LEQ:
			return Bool{C: a.C <= b.C}
		case token.GTR:
			return Bool{C: a.C > b.C}
		default:
			return Bool{C: a.C >= b.C}
		}
	}
	// lexicographic compare, forking byte by byte
	n := a.Len()
	if b.Len() < n {
		n = b.Len()
	}
	for i := 0; i < n; i++ {
		if e.branch(e.intCmp(token.LSS, a.At(i), b.At(i))) {
			return Bool{C: op == token.LSS || op == token.LEQ}
		}
		if e.branch(e.intCmp(token.GTR, a.At(i), b.At(i))) {
			return Bool{C: op == token.GTR || op == token.GEQ}
		}
	}
	switch op {
	case token.LSS:
		return Bool{C: a.Len() < b.Len()}
	case token.LEQ:
		return Bool{C: a.Len() <= b.Len()}
	case token.GTR:
		return Bool{C: a.Len() > b.Len()}
	}
	return Bool{C: a.Len() >= b.Len()}
}

func (e *Exec) equals(x, y Value) Bool {
	switch x := x.(type) {
	case nil:
		return Bool{C: y == nil}
	case Int:
		return e.intCmp(token.EQL, x, y.(Int))
	case Bool:
		return e.boolEq(x, y.(Bool))
	case Float:
		return e.floatCmp(token.EQL, x, y.(Float))
	case Str:
		return e.strEq(x, y.(Str))
	case *Value:
		yp, ok := y.(*Value)
		return Bool{C: ok && x == yp}
	case *Map:
		yp, _ := y.(*Map)
		return Bool{C: x == yp}
	case *Native:
		yp, _ := y.(*Native)
		return Bool{C: x == yp}
	case Slice:
		ys := y.(Slice)
		if x.Nil || ys.Nil {
			return Bool{C: x.Nil == ys.Nil && (x.Nil || false)}
		}
		panic(goPanic{msg: "comparing uncomparable slices"})
	case Iface:
		yi := y.(Iface)
		if x.T == nil || yi.T == nil {
			return Bool{C: x.T == nil && yi.T == nil}
		}
		if !types.Identical(x.T, yi.T) {
			return Bool{C: false}
		}
		return e.equals(x.V, yi.V)
	case Struct:
		ys := y.(Struct)
		r := Bool{C: true}
		for i := range x {
			r = e.and(r, e.equals(x[i], ys[i]))
		}
		return r
	case Array:
		ys := y.(Array)
		r := Bool{C: true}
		for i := range x {
			r = e.and(r, e.equals(x[i], ys[i]))
		}
		return r
	case NilFunc:
		_, ok := y.(NilFunc)
		return Bool{C: ok}
	case *ssa.Function, *Closure:
		_, ok := y.(NilFunc)
		if ok {
			return Bool{C: false}
		}
		return Bool{C: x == y}
	case symElem:
		p := e.derefPtr(x)
		return e.equals(p, y)
	}
	panic(unsupported(fmt.Sprintf("equals on %T", x)))
}

func (e *Exec) conv(dst, src types.Type, x Value) Value {
	ud, us := dst.Underlying(), src.Underlying()
	switch x := x.(type) {
	case Int:
		if isIntType(ud) {
			w, sg := intKind(ud)
			return e.intConv(x, w, sg)
		}
		if isFloatType(ud) {
			return e.intToFloat(x, ud)
		}
		if isStringType(ud) {
			v := e.concretize(x)
			if v < 0 || v > 0x10FFFF {
				v = 0xFFFD
			}
			return Str{C: string(rune(v))}
		}
	case Float:
		if isIntType(ud) {
			w, sg := intKind(ud)
			return e.floatToInt(x, w, sg)
		}
		if isFloatType(ud) {
			if ud.(*types.Basic).Kind() == types.Float32 {
				if x.S != nil {
					panic(unsupported("symbolic float32 conversion"))
				}
				return Float{W: 32, C: float64(float32(x.C))}
			}
			return Float{W: 64, C: x.C, S: x.S}
		}
	case Str:
		if isStringType(ud) {
			return x
		}
		if sl, ok := ud.(*types.Slice); ok {
			eb := sl.Elem().Underlying().(*types.Basic)
			if eb.Kind() == types.Uint8 {
				bs := x.Bytes()
				b := make([]Value, len(bs))
				for i, c := range bs {
					b[i] = c
				}
				return Slice{B: b, N: len(b)}
			}
			if eb.Kind() == types.Int32 {
				rs := e.decodeRunes(x)
				b := make([]Value, len(rs))
				for i, r := range rs {
					b[i] = r
				}
				return Slice{B: b, N: len(b)}
			}
		}
	case Slice:
		if isStringType(ud) {
			eb := us.(*types.Slice).Elem().Underlying().(*types.Basic)
			if eb.Kind() == types.Uint8 {
				bs := make([]Int, x.N)
				for i := 0; i < x.N; i++ {
					bs[i] = x.B[i].(Int)
				}
				return strFromBytes(bs)
			}
			if eb.Kind() == types.Int32 {
				var sb strings.Builder
				for i := 0; i < x.N; i++ {
					sb.WriteRune(rune(e.concretize(x.B[i].(Int))))
				}
				return Str{C: sb.String()}
			}
		}
	case *Value:
		if _, ok := ud.(*types.Pointer); ok {
			return x
		}
		if b, ok := ud.(*types.Basic); ok && b.Kind() == types.UnsafePointer {
			return x
		}
	}
	panic(unsupported(fmt.Sprintf("conversion %v -> %v (%T)", src, dst, x)))
}

// decodeRunes decodes a string into runes; symbolic bytes must be ASCII (checked by forking).
func (e *Exec) decodeRunes(s Str) []Int {
	if s.S == nil {
		var rs []Int
		for _, r := range s.C {
			rs = append(rs, Int{W: 32, Sg: true, C: int64(r)})
		}
		return rs
	}
	var rs []Int
	i := 0
	for i < s.Len() {
		r, w := e.decodeRuneAt(s, i)
		rs = append(rs, r)
		i += w
	}
	return rs
}

// decodeRuneAt decodes the rune starting at byte i. A symbolic lead byte forks on being ASCII;
// non-ASCII symbolic bytes are concretised.
func (e *Exec) decodeRuneAt(s Str, i int) (Int, int) {
	b := s.At(i)
	if b.S != nil {
		if e.branch(e.intCmp(token.LSS, b, Int{W: 8, C: 0x80})) {
			return e.intConv(b, 32, true), 1
		}
	} else if b.C < 0x80 {
		return Int{W: 32, Sg: true, C: b.C}, 1
	}
	// multi-byte: concretise up to 4 bytes
	var buf []byte
	for j := i; j < s.Len() && j < i+4; j++ {
		buf = append(buf, byte(e.concretize(s.At(j))))
		if j > i && buf[len(buf)-1]&0xC0 != 0x80 {
			break
		}
	}
	r, w := decodeRuneBytes(buf)
	return Int{W: 32, Sg: true, C: int64(r)}, w
}

func (e *Exec) sliceOp(in *ssa.Slice, x, lo, hi, max Value) Value {
	geti := func(v Value, def int) int {
		if v == nil {
			return def
		}
		return e.concInt(v)
	}
	switch x := x.(type) {
	case Str:
		l := geti(lo, 0)
		h := geti(hi, x.Len())
		if l < 0 || h < l || h > x.Len() {
			panic(goPanic{msg: fmt.Sprintf("slice bounds out of range [%d:%d] with length %d", l, h, x.Len())})
		}
		return x.Sub(l, h)
	case Slice:
		c := len(x.B)
		l := geti(lo, 0)
		h := geti(hi, x.N)
		m := geti(max, c)
		if l < 0 || h < l || m < h || m > c {
			panic(goPanic{msg: fmt.Sprintf("slice bounds out of range [%d:%d:%d] with capacity %d", l, h, m, c)})
		}
		if x.Nil {
			return Slice{Nil: true}
		}
		return Slice{B: x.B[l:m:m], N: h - l}
	case *Value:
		if x == nil {
			panic(goPanic{msg: "slice of nil *array"})
		}
		a := (*x).(Array)
		l := geti(lo, 0)
		h := geti(hi, len(a))
		m := geti(max, len(a))
		if l < 0 || h < l || m < h || m > len(a) {
			panic(goPanic{msg: fmt.Sprintf("slice bounds out of range [%d:%d:%d] with array length %d", l, h, m, len(a))})
		}
		return Slice{B: []Value(a)[l:m:m], N: h - l}
	}
	panic(fmt.Sprintf("sliceOp: %T", x))
}

func (e *Exec) typeAssert(in *ssa.TypeAssert, x Iface) Value {
	ok := false
	if x.T != nil {
		if it, isI := in.AssertedType.Underlying().(*types.Interface); isI {
			ok = types.Implements(x.T, it)
			if !ok {
				if _, isPtr := x.T.(*types.Pointer); !isPtr {
					ok = false
				}
			}
		} else {
			ok = types.Identical(x.T, in.AssertedType)
		}
	}
	var v Value
	if ok {
		if _, isI := in.AssertedType.Underlying().(*types.Interface); isI {
			v = x
		} else {
			v = copyVal(x.V)
		}
	} else {
		if !in.CommaOk {
			panic(goPanic{msg: fmt.Sprintf("interface conversion: %v is not %v", x.T, in.AssertedType)})
		}
		v = zero(in.AssertedType)
	}
	if in.CommaOk {
		return Tuple{v, Bool{C: ok}}
	}
	return v
}

// ---------- maps ----------

func hashKey(k Value) (interface{}, bool) {
	switch k := k.(type) {
	case Int:
		if k.S == nil {
			return k.C, true
		}
	case Str:
		if k.IsConc() {
			return k.Conc(), true
		}
	case Bool:
		if k.S == nil {
			return k.C, true
		}
	case *Value:
		return k, true
	case Float:
		if k.S == nil {
			return k.C, true
		}
	case Iface:
		if k.T == nil {
			return ifaceKey{}, true
		}
		if in, ok := hashKey(k.V); ok {
			return ifaceKey{t: typeStr(k.T), v: in}, true
		}
	}
	return nil, false
}

type ifaceKey struct {
	t string
	v interface{}
}

// mapFind returns the index of key in m or -1, forking on symbolic comparisons.
func (e *Exec) mapFind(m *Map, key Value) int {
	if m == nil {
		return -1
	}
	if hk, ok := hashKey(key); ok && m.idx != nil {
		if i, ok := m.idx[hk]; ok {
			return i
		}
		if m.nsym == 0 {
			return -1
		}
		for i, k := range m.Keys {
			if k == nil {
				continue
			}
			if _, c := hashKey(k); !c {
				if e.branch(e.equals(k, key)) {
					return i
				}
			}
		}
		return -1
	}
	for i, k := range m.Keys {
		if k == nil {
			continue
		}
		if e.branch(e.equals(k, key)) {
			return i
		}
	}
	return -1
}

func (e *Exec) syncMapOf(recv Value) *Map {
	p := recv.(*Value)
	m := e.syncMaps[p]
	if m == nil {
		m = &Map{idx: map[interface{}]int{}}
		e.syncMaps[p] = m
	}
	return m
}

func (e *Exec) syncMapStore(recv, key, val Value) {
	if e.checkFrz && e.frozen[recv.(*Value)] {
		e.check(Bool{C: false}, "assert", "store to package-level state", "store into a sync.Map reachable from a package-level variable")
	}
	m := e.syncMapOf(recv)
	saved := e.checkFrz
	e.checkFrz = false
	e.mapSet(m, key, val)
	e.checkFrz = saved
}

func (e *Exec) mapSet(m *Map, key, val Value) {
	if i := e.mapFind(m, key); i >= 0 {
		m.Vals[i] = val
		return
	}
	if e.checkFrz && e.frozenMaps[m] {
		e.check(Bool{C: false}, "assert", "store to package-level state", "insert into a map reachable from a package-level variable")
	}
	m.Keys = append(m.Keys, key)
	m.Vals = append(m.Vals, val)
	if hk, ok := hashKey(key); ok {
		m.idx[hk] = len(m.Keys) - 1
	} else {
		m.nsym++
	}
}

func (e *Exec) mapDelete(m *Map, key Value) {
	if m == nil {
		return
	}
	if i := e.mapFind(m, key); i >= 0 {
		if hk, ok := hashKey(m.Keys[i]); ok {
			delete(m.idx, hk)
		} else {
			m.nsym--
		}
		m.Keys[i] = nil
		m.Vals[i] = nil
		m.dead++
	}
}

func (m *Map) Len() int {
	if m == nil {
		return 0
	}
	return len(m.Keys) - m.dead
}

func (e *Exec) lookup(in *ssa.Lookup, x, key Value) Value {
	m := x.(*Map)
	vt := in.X.Type().Underlying().(*types.Map).Elem()
	i := e.mapFind(m, key)
	var v Value
	if i >= 0 {
		v = copyVal(m.Vals[i])
	} else {
		v = zero(vt)
	}
	if in.CommaOk {
		return Tuple{v, Bool{C: i >= 0}}
	}
	return v
}

func (e *Exec) rangeIter(x Value) Value {
	switch x := x.(type) {
	case *Map:
		it := &MapIter{m: x}
		if x != nil {
			for i, k := range x.Keys {
				if k != nil {
					it.order = append(it.order, i)
				}
			}
			if e.mapOrder && len(it.order) > 1 {
				// symbolic permutation: choose the visiting order
				rem := append([]int{}, it.order...)
				var ord []int
				for len(rem) > 1 {
					c := e.choose(len(rem))
					ord = append(ord, rem[c])
					rem = append(rem[:c], rem[c+1:]...)
				}
				ord = append(ord, rem[0])
				it.order = ord
			}
		}
		return it
	case Str:
		return &StrIter{s: x}
	}
	panic(fmt.Sprintf("rangeIter: %T", x))
}

func (e *Exec) next(it Value, in *ssa.Next) Value {
	switch it := it.(type) {
	case *MapIter:
		for it.pos < len(it.order) {
			i := it.order[it.pos]
			it.pos++
			if it.m.Keys[i] == nil {
				continue // deleted during iteration
			}
			return Tuple{Bool{C: true}, it.m.Keys[i], copyVal(it.m.Vals[i])}
		}
		return Tuple{Bool{C: false}, nil, nil}
	case *StrIter:
		if it.pos >= it.s.Len() {
			return Tuple{Bool{C: false}, Int{W: 64, Sg: true}, Int{W: 32, Sg: true}}
		}
		r, w := e.decodeRuneAt(it.s, it.pos)
		p := it.pos
		it.pos += w
		return Tuple{Bool{C: true}, Int{W: 64, Sg: true, C: int64(p)}, r}
	}
	panic(fmt.Sprintf("next: %T", it))
}

// ---------- builtins ----------

func (e *Exec) builtin(fn *ssa.Builtin, args []Value, site ssa.Instruction) Value {
	switch fn.Name() {
	case "len":
		switch x := args[0].(type) {
		case Str:
			return Int{W: 64, Sg: true, C: int64(x.Len())}
		case Slice:
			return Int{W: 64, Sg: true, C: int64(x.N)}
		case *Map:
			return Int{W: 64, Sg: true, C: int64(x.Len())}
		case Array:
			return Int{W: 64, Sg: true, C: int64(len(x))}
		case *Value:
			return Int{W: 64, Sg: true, C: int64(len((*x).(Array)))}
		}
	case "cap":
		switch x := args[0].(type) {
		case Slice:
			return Int{W: 64, Sg: true, C: int64(len(x.B))}
		case Array:
			return Int{W: 64, Sg: true, C: int64(len(x))}
		}
	case "append":
		return e.appendOp(fn, args)
	case "copy":
		dst := args[0].(Slice)
		var src []Value
		switch s := args[1].(type) {
		case Slice:
			src = s.B[:s.N]
		case Str:
			for _, b := range s.Bytes() {
				src = append(src, b)
			}
		}
		n := len(src)
		if dst.N < n {
			n = dst.N
		}
		tmp := make([]Value, n)
		for i := 0; i < n; i++ {
			tmp[i] = copyVal(src[i])
		}
		for i := 0; i < n; i++ {
			storeInto(&dst.B[i], tmp[i])
		}
		return Int{W: 64, Sg: true, C: int64(n)}
	case "delete":
		e.mapDelete(args[0].(*Map), args[1])
		return nil
	case "print", "println":
		return nil
	case "min", "max":
		r := args[0]
		for _, a := range args[1:] {
			var c Bool
			switch x := r.(type) {
			case Int:
				if fn.Name() == "min" {
					c = e.intCmp(token.LSS, a.(Int), x)
				} else {
					c = e.intCmp(token.GTR, a.(Int), x)
				}
			default:
				panic(unsupported("min/max on non-int"))
			}
			if e.branch(c) {
				r = a
			}
		}
		return r
	case "recover":
		return Iface{}
	case "clear":
		switch x := args[0].(type) {
		case *Map:
			if x != nil {
				x.Keys, x.Vals, x.dead = nil, nil, 0
				x.idx = map[interface{}]int{}
			}
		default:
			panic(unsupported("clear on slice"))
		}
		return nil
	}
	panic(unsupported("builtin " + fn.Name()))
}

func (e *Exec) appendOp(fn *ssa.Builtin, args []Value) Value {
	s := args[0].(Slice)
	var add []Value
	switch a := args[1].(type) {
	case Slice:
		add = a.B[:a.N]
	case Str:
		for _, b := range a.Bytes() {
			add = append(add, b)
		}
	default:
		panic(fmt.Sprintf("append: %T", a))
	}
	if len(add) == 0 {
		return s
	}
	sig := fn.Type().(*types.Signature)
	elt := sig.Params().At(0).Type().Underlying().(*types.Slice).Elem()
	if s.N+len(add) <= len(s.B) {
		tmp := make([]Value, len(add))
		for i, v := range add {
			tmp[i] = copyVal(v)
		}
		for i, v := range tmp {
			// append within capacity writes into the backing array: if that array hangs off a package-level
			// variable this is a store into shared state like any other
			if e.checkFrz && e.frozen[&s.B[s.N+i]] {
				e.check(Bool{C: false}, "assert", "store to package-level state", "append into spare capacity of an array reachable from a package-level variable")
			}
			storeInto(&s.B[s.N+i], v)
		}
		return Slice{B: s.B, N: s.N + len(add)}
	}
	size := int(e.P.Sizes.Sizeof(elt))
	nc := growCap(size, hasPointers(elt), s.N, len(s.B), len(add))
	nb := make([]Value, nc)
	// note: add may alias s.B; copy the source values first
	tmp := make([]Value, len(add))
	for i, v := range add {
		tmp[i] = copyVal(v)
	}
	copy(nb, s.B[:s.N])
	copy(nb[s.N:], tmp)
	for i := s.N + len(add); i < nc; i++ {
		nb[i] = zero(elt)
	}
	return Slice{B: nb, N: s.N + len(add)}
}

func hasPointers(t types.Type) bool {
	switch t := t.Underlying().(type) {
	case *types.Basic:
		return t.Info()&types.IsString != 0 || t.Kind() == types.UnsafePointer
	case *types.Struct:
		for i := 0; i < t.NumFields(); i++ {
			if hasPointers(t.Field(i).Type()) {
				return true
			}
		}
		return false
	case *types.Array:
		return hasPointers(t.Elem())
	}
	return true
}

var _ = math.MaxInt64

// divSym: x / y and x % y with a symbolic divisor, by case-splitting the quotient (0 <= x, 0 < y required):
// the candidates q = 0,1,2,... are tried in order with the linear condition x < (q+1)*y, (q+1)*y by repeated addition.
func (e *Exec) divSym(op token.Token, x, y Int) (Int, bool) {
	xl, _, xok := e.ival(x)
	yl, yh, yok := e.ival(y)
	if !(xok && yok && xl >= 0 && yl > 0 && yh < 1<<55) {
		return Int{}, false
	}
	if _, xh, _ := e.ival(x); xh/yl >= 64 && yh-yl < 128 {
		// the quotient may be large but the divisor has few values: case-split the divisor instead
		c := e.concretize(y)
		return e.intBin(op, x, Int{W: y.W, Sg: y.Sg, C: c}), true
	}
	e.quotSplits++
	prev := Int{W: x.W, Sg: x.Sg}
	acc := y
	for q := 0; q < 64; q++ {
		if e.branch(e.intCmp(token.LSS, x, acc)) {
			if op == token.QUO {
				return Int{W: x.W, Sg: x.Sg, C: int64(q)}, true
			}
			return e.intBin(token.SUB, x, prev), true
		}
		prev = acc
		acc = e.intBin(token.ADD, acc, y)
	}
	panic(unsupported("symbolic division: quotient above 64"))
}

var typeStrCache sync.Map

func typeStr(t types.Type) string {
	if s, ok := typeStrCache.Load(t); ok {
		return s.(string)
	}
	s := t.String()
	typeStrCache.Store(t, s)
	return s
}

var slowLog = os.Getenv("VERIF_SLOWLOG") == "1"
