package main

import (
	"fmt"
	"go/token"
	"math"
	"regexp"
	"sort"
	"strconv"
	"strings"
	"sync"
	"unicode"
	"unicode/utf8"
)

var growMu sync.Mutex

type intrinsic func(e *Exec, args []Value) (Value, bool)

var intrinsics map[string]intrinsic

func ci(v int) Int      { return Int{W: 64, Sg: true, C: int64(v)} }
func cb(b bool) Bool    { return Bool{C: b} }
func cs(s string) Str   { return Str{C: s} }
func isC(s Str) bool    { return s.IsConc() }
func byteC(c byte) Int  { return Int{W: 8, C: int64(c)} }
func runeC(r rune) Int  { return Int{W: 32, Sg: true, C: int64(r)} }
func nilErr() Value     { return Iface{} }
func allConcStr(a ...Value) bool {
	for _, v := range a {
		switch v := v.(type) {
		case Str:
			if !v.IsConc() {
				return false
			}
		case Int:
			if v.S != nil {
				return false
			}
		case Slice:
			for i := 0; i < v.N; i++ {
				if !allConcStr(v.B[i]) {
					return false
				}
			}
		case Bool:
			if v.S != nil {
				return false
			}
		case Float:
			if v.S != nil {
				return false
			}
		}
	}
	return true
}

func strSliceVal(ss []Str) Value {
	b := make([]Value, len(ss))
	for i, s := range ss {
		b[i] = s
	}
	return Slice{B: b, N: len(b)}
}

func strSliceOf(v Value) []Str {
	s := v.(Slice)
	r := make([]Str, s.N)
	for i := 0; i < s.N; i++ {
		r[i] = s.B[i].(Str)
	}
	return r
}

func sliceToStr(v Value) Str {
	s := v.(Slice)
	bs := make([]Int, s.N)
	for i := 0; i < s.N; i++ {
		bs[i] = s.B[i].(Int)
	}
	return strFromBytes(bs)
}

func strToSlice(s Str) Slice {
	bs := s.Bytes()
	b := make([]Value, len(bs))
	for i, c := range bs {
		b[i] = c
	}
	return Slice{B: b, N: len(b)}
}

// ---------- byte / rune class predicates ----------

func (e *Exec) byteIn(b Int, set string) Bool {
	if b.S == nil {
		return cb(strings.IndexByte(set, byte(b.C)) >= 0)
	}
	r := Bool{C: false}
	for i := 0; i < len(set); i++ {
		r = e.or(r, e.intCmp(token.EQL, b, Int{W: b.W, Sg: b.Sg, C: int64(set[i])}))
	}
	return r
}

func (e *Exec) inRangeI(x Int, lo, hi int64) Bool {
	return e.and(e.intCmp(token.GEQ, x, Int{W: x.W, Sg: x.Sg, C: lo}), e.intCmp(token.LEQ, x, Int{W: x.W, Sg: x.Sg, C: hi}))
}

// isSpaceRune: unicode.IsSpace on a rune; symbolic runes are ASCII by construction (decodeRuneAt) or get concretised.
func (e *Exec) isSpaceRune(r Int) Bool {
	if r.S == nil {
		return cb(unicode.IsSpace(rune(r.C)))
	}
	_, hi, ok := e.ival(r)
	if !ok || hi >= 0x80 {
		if !e.branch(e.intCmp(token.LSS, r, Int{W: r.W, Sg: r.Sg, C: 0x80})) {
			v := e.concretize(r)
			return cb(unicode.IsSpace(rune(v)))
		}
	}
	return e.or(e.inRangeI(r, 9, 13), e.intCmp(token.EQL, r, Int{W: r.W, Sg: r.Sg, C: 32}))
}

// lastRune decodes the rune ending at byte j (exclusive).
func (e *Exec) lastRune(s Str, j int) (Int, int) {
	b := s.At(j - 1)
	if b.S != nil {
		if e.branch(e.intCmp(token.LSS, b, byteC(0x80))) {
			return e.intConv(b, 32, true), 1
		}
	} else if b.C < 0x80 {
		return runeC(rune(b.C)), 1
	}
	start := j - 1
	var buf []byte
	for k := j - 1; k >= 0 && k >= j-4; k-- {
		c := byte(e.concretize(s.At(k)))
		buf = append([]byte{c}, buf...)
		start = k
		if c&0xC0 != 0x80 {
			break
		}
	}
	_ = start
	r, w := utf8.DecodeLastRune(buf)
	return runeC(r), w
}

func (e *Exec) trimLeftFunc(s Str, f func(Int) Bool) int {
	i := 0
	for i < s.Len() {
		r, w := e.decodeRuneAt(s, i)
		if !e.branch(f(r)) {
			break
		}
		i += w
	}
	return i
}

func (e *Exec) trimRightFunc(s Str, from int, f func(Int) Bool) int {
	j := s.Len()
	for j > from {
		r, w := e.lastRune(s, j)
		if !e.branch(f(r)) {
			break
		}
		j -= w
	}
	return j
}

func (e *Exec) trimSpaceIdx(s Str) (int, int) {
	i := e.trimLeftFunc(s, e.isSpaceRune)
	j := e.trimRightFunc(s, i, e.isSpaceRune)
	return i, j
}

// matchAt: formula "s[i:i+len(p)] == p".
func (e *Exec) matchAt(s Str, i int, p Str) Bool {
	if i+p.Len() > s.Len() {
		return cb(false)
	}
	return e.strEq(s.Sub(i, i+p.Len()), p)
}

func (e *Exec) indexStr(s, sep Str, from int) int {
	for i := from; i+sep.Len() <= s.Len(); i++ {
		if e.branch(e.matchAt(s, i, sep)) {
			return i
		}
	}
	return -1
}

func (e *Exec) splitStr(s, sep Str, n int) []Str {
	if n == 0 {
		return nil
	}
	if sep.Len() == 0 {
		if !isC(s) {
			panic(unsupported("Split with empty separator on symbolic string"))
		}
		var r []Str
		for _, p := range strings.SplitN(s.Conc(), "", n) {
			r = append(r, cs(p))
		}
		return r
	}
	var parts []Str
	start := 0
	for n < 0 || len(parts) < n-1 {
		i := e.indexStr(s, sep, start)
		if i < 0 {
			break
		}
		parts = append(parts, s.Sub(start, i))
		start = i + sep.Len()
	}
	parts = append(parts, s.Sub(start, s.Len()))
	return parts
}

func (e *Exec) fieldsStr(s Str) []Str {
	var parts []Str
	i := 0
	start := -1
	for i < s.Len() {
		r, w := e.decodeRuneAt(s, i)
		if e.branch(e.isSpaceRune(r)) {
			if start >= 0 {
				parts = append(parts, s.Sub(start, i))
				start = -1
			}
		} else if start < 0 {
			start = i
		}
		i += w
	}
	if start >= 0 {
		parts = append(parts, s.Sub(start, s.Len()))
	}
	return parts
}

func (e *Exec) replaceStr(s, old, nw Str, n int) Str {
	if old.Len() == 0 {
		if !isC(s) || !isC(nw) {
			panic(unsupported("Replace with empty old on symbolic string"))
		}
		return cs(strings.Replace(s.Conc(), "", nw.Conc(), n))
	}
	var parts []Str
	start := 0
	cnt := 0
	for n < 0 || cnt < n {
		i := e.indexStr(s, old, start)
		if i < 0 {
			break
		}
		parts = append(parts, s.Sub(start, i), nw)
		start = i + old.Len()
		cnt++
	}
	parts = append(parts, s.Sub(start, s.Len()))
	return strConcat(parts...)
}

func (e *Exec) toLowerStr(s Str) Str {
	if isC(s) {
		return cs(strings.ToLower(s.Conc()))
	}
	bs := s.Bytes()
	out := make([]Int, len(bs))
	for i, b := range bs {
		if b.S == nil {
			if b.C >= 0x80 {
				// non-ASCII: concretise everything and use the real function
				var raw []byte
				for _, c := range bs {
					raw = append(raw, byte(e.concretize(c)))
				}
				return cs(strings.ToLower(string(raw)))
			}
			out[i] = byteC(byte(unicode.ToLower(rune(b.C))))
			continue
		}
		if !e.branch(e.intCmp(token.LSS, b, byteC(0x80))) {
			var raw []byte
			for _, c := range bs {
				raw = append(raw, byte(e.concretize(c)))
			}
			return cs(strings.ToLower(string(raw)))
		}
		isUp := e.inRangeI(b, 'A', 'Z')
		out[i] = e.iteInt(isUp, e.intBin(token.ADD, b, byteC(32)), b)
	}
	return strFromBytes(out)
}

// ---------- strconv ----------

func (e *Exec) isDigit(b Int) Bool { return e.inRangeI(b, '0', '9') }

// atoi models strconv.Atoi / ParseInt(base 10, 64): returns (value, ok).
func (e *Exec) atoi(s Str, bitSize int) (Int, bool) {
	if isC(s) {
		v, err := strconv.ParseInt(s.Conc(), 10, bitSize)
		return Int{W: 64, Sg: true, C: v}, err == nil
	}
	n := s.Len()
	if n == 0 {
		return ci(0), false
	}
	i := 0
	neg := false
	b0 := s.At(0)
	if e.branch(e.byteIn(b0, "+-")) {
		neg = e.branch(e.intCmp(token.EQL, b0, byteC('-')))
		i = 1
		if n == 1 {
			return ci(0), false
		}
	}
	if n-i > 18 {
		panic(unsupported("Atoi on more than 18 symbolic digits"))
	}
	acc := Int{W: 64, Sg: true}
	for ; i < n; i++ {
		b := s.At(i)
		if !e.branch(e.isDigit(b)) {
			return ci(0), false
		}
		d := e.intBin(token.SUB, e.intConv(b, 64, true), ci('0'))
		// identity: the complete digit sequence of X (as produced by the decimal rendering model) reads back as X
		if acc.S == nil && acc.C == 0 && d.S != nil && d.S.DigOf != nil && d.S.DigK == d.S.DigN-1 && n-i == d.S.DigN {
			whole := d.S.DigOf
			ok := true
			for k := 1; k < d.S.DigN; k++ {
				bk := s.At(i + k)
				if bk.S == nil {
					ok = false
					break
				}
				dk := e.intBin(token.SUB, e.intConv(bk, 64, true), ci('0'))
				if dk.S == nil || dk.S.DigOf == nil || dk.S.DigOf.Name != whole.Name || dk.S.DigK != d.S.DigN-1-k || dk.S.DigN != d.S.DigN {
					ok = false
					break
				}
			}
			if ok {
				wt := *whole
				acc = Int{W: 64, Sg: true, S: &wt}
				e.digitIdent++
				i = n
				break
			}
		}
		acc = e.intBin(token.ADD, e.intBin(token.MUL, acc, ci(10)), d)
	}
	if neg {
		acc = e.intNeg(acc)
	}
	if bitSize < 64 {
		lim := int64(1) << uint(bitSize-1)
		if !e.branch(e.inRangeI(acc, -lim, lim-1)) {
			return ci(0), false
		}
	}
	return acc, true
}

// itoa renders a (possibly symbolic) integer in decimal; the number of digits is decided by forking.
func (e *Exec) itoa(x Int) Str {
	if x.S == nil {
		if x.Sg {
			return cs(strconv.FormatInt(x.C, 10))
		}
		return cs(strconv.FormatUint(uint64(x.C), 10))
	}
	x = e.intConv(x, 64, x.Sg)
	neg := false
	if x.Sg {
		lo, _, ok := e.ival(x)
		if !ok || lo < 0 {
			if e.branch(e.intCmp(token.LSS, x, ci(0))) {
				neg = true
				x = e.intNeg(x)
			}
		}
	}
	// number of digits
	nd := 1
	p := int64(10)
	for nd < 19 {
		if e.branch(e.intCmp(token.LSS, x, Int{W: 64, Sg: x.Sg, C: p})) {
			break
		}
		nd++
		if nd < 19 {
			p *= 10
		}
	}
	digits := make([]Int, nd)
	// in BV mode work at the narrowest width that holds the value: division is expensive
	w := uint8(64)
	if e.mode == ModeBV {
		_, hi, ok := e.ival(x)
		if ok {
			switch {
			case hi < 1<<7:
				w = 8
			case hi < 1<<15:
				w = 16
			case hi < 1<<31:
				w = 32
			}
		}
	}
	y := e.intConv(x, w, false)
	if w == 64 {
		y = e.intConv(x, 64, true)
	}
	ten := Int{W: y.W, Sg: y.Sg, C: 10}
	whole := x.S
	for k := nd - 1; k >= 0; k-- {
		d := e.intBin(token.REM, y, ten)
		if d.S != nil && e.mode == ModeINT && whole != nil {
			nt := *d.S
			nt.DigOf, nt.DigK, nt.DigN = whole, nd-1-k, nd
			nt.Base, nt.Off = nil, 0
			d.S = &nt
		}
		digits[k] = e.intBin(token.ADD, e.intConv(d, 8, false), byteC('0'))
		if k > 0 {
			y = e.intBin(token.QUO, y, ten)
		}
	}
	s := strFromBytes(digits)
	if neg {
		return strConcat(cs("-"), s)
	}
	return s
}

func (e *Exec) hexDigit(v Int) Int { // v in [0,15] -> '0'..'9','a'..'f'
	v8 := e.intConv(v, 8, false)
	lt10 := e.intCmp(token.LSS, v8, byteC(10))
	return e.iteInt(lt10, e.intBin(token.ADD, v8, byteC('0')), e.intBin(token.ADD, v8, byteC('a'-10)))
}

// hexFixed renders x as exactly n lower-case hex digits (x must fit).
func (e *Exec) hexFixed(x Int, n int) Str {
	ds := make([]Int, n)
	for k := 0; k < n; k++ {
		sh := Int{W: 64, C: int64(4 * (n - 1 - k))}
		nib := e.intBin(token.AND, e.intBin(token.SHR, x, sh), Int{W: x.W, Sg: x.Sg, C: 15})
		ds[k] = e.hexDigit(nib)
	}
	return strFromBytes(ds)
}

// ---------- fmt ----------

func (e *Exec) toGoArg(v Value) (interface{}, bool) {
	switch v := v.(type) {
	case Iface:
		if v.T == nil {
			return nil, true
		}
		if p, ok := v.V.(*Value); ok && p != nil {
			if st, ok := (*p).(Struct); ok && len(st) == 1 {
				if s, ok := st[0].(Str); ok && strings.HasSuffix(v.T.String(), "errors.errorString") {
					return fmt.Errorf("%s", s.Conc()), true
				}
			}
		}
		return e.toGoArg(v.V)
	case Int:
		if v.S != nil {
			return nil, false
		}
		if v.Sg {
			switch v.W {
			case 8:
				return int8(v.C), true
			case 16:
				return int16(v.C), true
			case 32:
				return int32(v.C), true
			}
			return v.C, true
		}
		switch v.W {
		case 8:
			return uint8(v.C), true
		case 16:
			return uint16(v.C), true
		case 32:
			return uint32(v.C), true
		}
		return uint64(v.C), true
	case Str:
		if !v.IsConc() {
			return nil, false
		}
		return v.Conc(), true
	case Bool:
		if v.S != nil {
			return nil, false
		}
		return v.C, true
	case Float:
		if v.S != nil {
			return nil, false
		}
		return v.C, true
	case Slice:
		// []byte
		bs := make([]byte, v.N)
		for i := 0; i < v.N; i++ {
			b, ok := v.B[i].(Int)
			if !ok || b.S != nil || b.W != 8 {
				return nil, false
			}
			bs[i] = byte(b.C)
		}
		return bs, true
	}
	return nil, false
}

func (e *Exec) sprintf(format Str, args []Value) Str {
	f := format.Conc()
	all := true
	gos := make([]interface{}, len(args))
	for i, a := range args {
		g, ok := e.toGoArg(a)
		if !ok {
			all = false
			break
		}
		gos[i] = g
	}
	if all {
		return cs(fmt.Sprintf(f, gos...))
	}
	// minimal symbolic formatter
	var parts []Str
	ai := 0
	i := 0
	for i < len(f) {
		j := strings.IndexByte(f[i:], '%')
		if j < 0 {
			parts = append(parts, cs(f[i:]))
			break
		}
		parts = append(parts, cs(f[i:i+j]))
		i += j + 1
		k := i
		for k < len(f) && strings.IndexByte("0123456789.+-# ", f[k]) >= 0 {
			k++
		}
		if k >= len(f) {
			panic(unsupported("bad format " + f))
		}
		flags, verb := f[i:k], f[k]
		i = k + 1
		if verb == '%' {
			parts = append(parts, cs("%"))
			continue
		}
		if ai >= len(args) {
			panic(unsupported("format arg count " + f))
		}
		a := args[ai]
		ai++
		if ifc, ok := a.(Iface); ok {
			a = ifc.V
		}
		switch verb {
		case 'd', 'v', 's':
			switch x := a.(type) {
			case Int:
				if x.S == nil && verb != 's' {
					if x.Sg {
						parts = append(parts, cs(fmt.Sprintf("%"+flags+"d", x.C)))
					} else {
						parts = append(parts, cs(fmt.Sprintf("%"+flags+"d", uint64(x.C))))
					}
					break
				}
				if verb == 's' {
					panic(unsupported("symbolic %" + flags + string(verb)))
				}
				if flags == "" {
					parts = append(parts, e.itoa(x))
					break
				}
				// width, optionally zero-padded: %5d %05d
				zero := flags[0] == '0'
				wd, err := strconv.Atoi(flags)
				if err != nil || wd < 0 || strings.ContainsAny(flags, ".+-# ") {
					panic(unsupported("symbolic %" + flags + string(verb)))
				}
				digits := e.itoa(x) // forks on sign and digit count; "-" first when negative
				sign := ""
				if digits.Len() > 0 {
					if b := digits.At(0); b.S == nil && b.C == '-' {
						sign = "-"
						digits = digits.Sub(1, digits.Len())
					}
				}
				pad := wd - digits.Len() - len(sign)
				if pad < 0 {
					pad = 0
				}
				if zero {
					parts = append(parts, cs(sign), cs(strings.Repeat("0", pad)), digits)
				} else {
					parts = append(parts, cs(strings.Repeat(" ", pad)), cs(sign), digits)
				}
			case Str:
				if flags != "" || verb == 'd' {
					panic(unsupported("symbolic %" + flags + string(verb)))
				}
				parts = append(parts, x)
			default:
				g, ok := e.toGoArg(a)
				if !ok {
					panic(unsupported(fmt.Sprintf("sprintf arg %T", a)))
				}
				parts = append(parts, cs(fmt.Sprintf("%"+flags+string(verb), g)))
			}
		case 'x':
			x, ok := a.(Int)
			if !ok || len(flags) != 2 || flags[0] != '.' {
				panic(unsupported("symbolic %" + flags + "x"))
			}
			n := int(flags[1] - '0')
			parts = append(parts, e.hexFixed(x, n))
		default:
			panic(unsupported("symbolic format verb %" + flags + string(verb)))
		}
	}
	return strConcat(parts...)
}

func variadicArgs(v Value) []Value {
	s := v.(Slice)
	return s.B[:s.N]
}

// ---------- sort ----------

func (e *Exec) insertionSort(n int, less func(i, j int) bool, swap func(i, j int)) {
	if n > 20 {
		panic(unsupported("stable sort of more than 20 elements"))
	}
	for i := 1; i < n; i++ {
		for j := i; j > 0 && less(j, j-1); j-- {
			swap(j, j-1)
		}
	}
}

// ---------- the table ----------

func init() {
	noop := func(e *Exec, a []Value) (Value, bool) { return nil, true }
	intrinsics = map[string]intrinsic{
		// sync
		"(*sync.Mutex).Lock":      noop,
		"(*sync.Mutex).Unlock":    noop,
		"(*sync.RWMutex).Lock":    noop,
		"(*sync.RWMutex).Unlock":  noop,
		"(*sync.RWMutex).RLock":   noop,
		"(*sync.RWMutex).RUnlock": noop,
		"(*sync.Once).Do": func(e *Exec, a []Value) (Value, bool) {
			e.call(a[1], nil, nil)
			return nil, true
		},
		// sync.Pool: a LIFO free list kept beside the interpreter heap
		"(*sync.Pool).Get": func(e *Exec, a []Value) (Value, bool) {
			p := a[0].(*Value)
			if l := e.pools[p]; len(l) > 0 {
				v := l[len(l)-1]
				e.pools[p] = l[:len(l)-1]
				return v, true
			}
			st := (*p).(Struct)
			newFn := st[len(st)-1]
			if _, isNil := newFn.(NilFunc); isNil {
				return Iface{}, true
			}
			return e.call(newFn, nil, nil), true
		},
		"(*sync.Pool).Put": func(e *Exec, a []Value) (Value, bool) {
			p := a[0].(*Value)
			if x, ok := a[1].(Iface); ok && x.T == nil {
				return nil, true
			}
			e.pools[p] = append(e.pools[p], a[1])
			return nil, true
		},
		// sync.Map: an interpreter map kept beside the heap, keyed by the receiver; an insert or overwrite on a
		// sync.Map that lives in package-level state is a store to that state (vfreeze)
		"(*sync.Map).Load": func(e *Exec, a []Value) (Value, bool) {
			m := e.syncMapOf(a[0])
			if i := e.mapFind(m, a[1]); i >= 0 {
				return Tuple{m.Vals[i], Bool{C: true}}, true
			}
			return Tuple{Iface{}, Bool{C: false}}, true
		},
		"(*sync.Map).Store": func(e *Exec, a []Value) (Value, bool) {
			e.syncMapStore(a[0], a[1], a[2])
			return nil, true
		},
		"(*sync.Map).LoadOrStore": func(e *Exec, a []Value) (Value, bool) {
			m := e.syncMapOf(a[0])
			if i := e.mapFind(m, a[1]); i >= 0 {
				return Tuple{m.Vals[i], Bool{C: true}}, true
			}
			e.syncMapStore(a[0], a[1], a[2])
			return Tuple{a[2], Bool{C: false}}, true
		},
		"(*sync.Map).Delete": func(e *Exec, a []Value) (Value, bool) {
			if e.checkFrz && e.frozen[a[0].(*Value)] {
				e.check(Bool{C: false}, "assert", "store to package-level state", "delete from a sync.Map reachable from a package-level variable")
			}
			e.mapDelete(e.syncMapOf(a[0]), a[1])
			return nil, true
		},
		"log.Printf":  noop,
		"log.Println": noop,
		"log.Print":   noop,

		"fmt.Errorf": func(e *Exec, a []Value) (Value, bool) {
			return e.newError("fmt.Errorf: " + a[0].(Str).Conc()), true
		},
		"fmt.Sprintf": func(e *Exec, a []Value) (Value, bool) {
			return e.sprintf(a[0].(Str), variadicArgs(a[1])), true
		},
		"fmt.Sprint": func(e *Exec, a []Value) (Value, bool) {
			var gos []interface{}
			for _, x := range variadicArgs(a[0]) {
				g, ok := e.toGoArg(x)
				if !ok {
					panic(unsupported("fmt.Sprint symbolic"))
				}
				gos = append(gos, g)
			}
			return cs(fmt.Sprint(gos...)), true
		},

		// strings
		// strings are immutable values in the engine: a clone is the string itself
		"internal/stringslite.Clone": func(e *Exec, a []Value) (Value, bool) { return a[0], true },
		"strings.Clone":              func(e *Exec, a []Value) (Value, bool) { return a[0], true },
		"strings.TrimSpace": func(e *Exec, a []Value) (Value, bool) {
			s := a[0].(Str)
			if isC(s) {
				return cs(strings.TrimSpace(s.Conc())), true
			}
			i, j := e.trimSpaceIdx(s)
			return s.Sub(i, j), true
		},
		"strings.Split": func(e *Exec, a []Value) (Value, bool) {
			s, sep := a[0].(Str), a[1].(Str)
			if isC(s) && isC(sep) {
				var r []Str
				for _, p := range strings.Split(s.Conc(), sep.Conc()) {
					r = append(r, cs(p))
				}
				return strSliceVal(r), true
			}
			return strSliceVal(e.splitStr(s, sep, -1)), true
		},
		"strings.SplitN": func(e *Exec, a []Value) (Value, bool) {
			s, sep := a[0].(Str), a[1].(Str)
			n := e.concInt(a[2])
			r := e.splitStr(s, sep, n)
			if r == nil {
				return Slice{Nil: true}, true
			}
			return strSliceVal(r), true
		},
		"strings.Join": func(e *Exec, a []Value) (Value, bool) {
			parts := strSliceOf(a[0])
			sep := a[1].(Str)
			var all []Str
			for i, p := range parts {
				if i > 0 {
					all = append(all, sep)
				}
				all = append(all, p)
			}
			return strConcat(all...), true
		},
		"strings.Fields": func(e *Exec, a []Value) (Value, bool) {
			s := a[0].(Str)
			if isC(s) {
				var r []Str
				for _, p := range strings.Fields(s.Conc()) {
					r = append(r, cs(p))
				}
				return strSliceVal(r), true
			}
			return strSliceVal(e.fieldsStr(s)), true
		},
		"strings.Contains": func(e *Exec, a []Value) (Value, bool) {
			s, sub := a[0].(Str), a[1].(Str)
			if isC(s) && isC(sub) {
				return cb(strings.Contains(s.Conc(), sub.Conc())), true
			}
			r := Bool{C: false}
			for i := 0; i+sub.Len() <= s.Len(); i++ {
				r = e.or(r, e.matchAt(s, i, sub))
			}
			return r, true
		},
		"strings.Count": func(e *Exec, a []Value) (Value, bool) {
			s, sub := a[0].(Str), a[1].(Str)
			if isC(s) && isC(sub) {
				return ci(strings.Count(s.Conc(), sub.Conc())), true
			}
			if sub.Len() == 0 {
				return ci(len(e.decodeRunes(s)) + 1), true
			}
			n, from := 0, 0
			for {
				i := e.indexStr(s, sub, from)
				if i < 0 {
					break
				}
				n++
				from = i + sub.Len()
			}
			return ci(n), true
		},
		"strings.Index": func(e *Exec, a []Value) (Value, bool) {
			return ci(e.indexStr(a[0].(Str), a[1].(Str), 0)), true
		},
		"strings.IndexByte": func(e *Exec, a []Value) (Value, bool) {
			s := a[0].(Str)
			c := a[1].(Int)
			for i := 0; i < s.Len(); i++ {
				if e.branch(e.intCmp(token.EQL, s.At(i), c)) {
					return ci(i), true
				}
			}
			return ci(-1), true
		},
		"strings.HasPrefix": func(e *Exec, a []Value) (Value, bool) {
			return e.matchAt(a[0].(Str), 0, a[1].(Str)), true
		},
		"strings.HasSuffix": func(e *Exec, a []Value) (Value, bool) {
			s, p := a[0].(Str), a[1].(Str)
			if p.Len() > s.Len() {
				return cb(false), true
			}
			return e.matchAt(s, s.Len()-p.Len(), p), true
		},
		"strings.TrimPrefix": func(e *Exec, a []Value) (Value, bool) {
			s, p := a[0].(Str), a[1].(Str)
			if e.branch(e.matchAt(s, 0, p)) {
				return s.Sub(p.Len(), s.Len()), true
			}
			return s, true
		},
		"strings.TrimSuffix": func(e *Exec, a []Value) (Value, bool) {
			s, p := a[0].(Str), a[1].(Str)
			if p.Len() <= s.Len() && e.branch(e.matchAt(s, s.Len()-p.Len(), p)) {
				return s.Sub(0, s.Len()-p.Len()), true
			}
			return s, true
		},
		"strings.Trim": func(e *Exec, a []Value) (Value, bool) {
			s, cut := a[0].(Str), a[1].(Str)
			if isC(s) && isC(cut) {
				return cs(strings.Trim(s.Conc(), cut.Conc())), true
			}
			cs_ := cut.Conc()
			for i := 0; i < len(cs_); i++ {
				if cs_[i] >= 0x80 {
					panic(unsupported("strings.Trim with non-ASCII cutset on symbolic string"))
				}
			}
			f := func(r Int) Bool {
				if r.S == nil {
					return cb(r.C < 0x80 && strings.IndexByte(cs_, byte(r.C)) >= 0)
				}
				rr := Bool{C: false}
				for k := 0; k < len(cs_); k++ {
					rr = e.or(rr, e.intCmp(token.EQL, r, runeC(rune(cs_[k]))))
				}
				return rr
			}
			i := e.trimLeftFunc(s, f)
			j := e.trimRightFunc(s, i, f)
			return s.Sub(i, j), true
		},
		"strings.TrimLeftFunc": func(e *Exec, a []Value) (Value, bool) {
			s := a[0].(Str)
			fn := a[1]
			i := e.trimLeftFunc(s, func(r Int) Bool { return e.call(fn, []Value{r}, nil).(Bool) })
			return s.Sub(i, s.Len()), true
		},
		"strings.ToLower": func(e *Exec, a []Value) (Value, bool) {
			return e.toLowerStr(a[0].(Str)), true
		},
		"strings.ReplaceAll": func(e *Exec, a []Value) (Value, bool) {
			s, o, n := a[0].(Str), a[1].(Str), a[2].(Str)
			if isC(s) && isC(o) && isC(n) {
				return cs(strings.ReplaceAll(s.Conc(), o.Conc(), n.Conc())), true
			}
			return e.replaceStr(s, o, n, -1), true
		},
		"strings.Replace": func(e *Exec, a []Value) (Value, bool) {
			s, o, n := a[0].(Str), a[1].(Str), a[2].(Str)
			k := e.concInt(a[3])
			if isC(s) && isC(o) && isC(n) {
				return cs(strings.Replace(s.Conc(), o.Conc(), n.Conc(), k)), true
			}
			return e.replaceStr(s, o, n, k), true
		},
		"strings.Repeat": func(e *Exec, a []Value) (Value, bool) {
			s := a[0].(Str)
			n := e.concInt(a[1])
			if n < 0 {
				panic(goPanic{msg: "strings: negative Repeat count"})
			}
			var parts []Str
			for i := 0; i < n; i++ {
				parts = append(parts, s)
			}
			return strConcat(parts...), true
		},
		"strings.NewReplacer": func(e *Exec, a []Value) (Value, bool) {
			var pairs []string
			for _, p := range strSliceOf(a[0]) {
				pairs = append(pairs, p.Conc())
			}
			if len(pairs)%2 == 1 {
				panic(goPanic{msg: "strings.NewReplacer: odd argument count"})
			}
			cell := new(Value)
			*cell = &Native{Kind: "replacer", V: pairs, Aux: strings.NewReplacer(pairs...)}
			return cell, true
		},
		"(*strings.Replacer).Replace": func(e *Exec, a []Value) (Value, bool) {
			nat := (*a[0].(*Value)).(*Native)
			s := a[1].(Str)
			if isC(s) {
				return cs(nat.Aux.(*strings.Replacer).Replace(s.Conc())), true
			}
			pairs := nat.V.([]string)
			var parts []Str
			start, i := 0, 0
			for i < s.Len() {
				matched := false
				for k := 0; k+1 < len(pairs); k += 2 {
					old := cs(pairs[k])
					if old.Len() == 0 {
						panic(unsupported("replacer with empty old string"))
					}
					if e.branch(e.matchAt(s, i, old)) {
						parts = append(parts, s.Sub(start, i), cs(pairs[k+1]))
						i += old.Len()
						start = i
						matched = true
						break
					}
				}
				if !matched {
					i++
				}
			}
			parts = append(parts, s.Sub(start, s.Len()))
			return strConcat(parts...), true
		},
		"strings.EqualFold": func(e *Exec, a []Value) (Value, bool) {
			s, t := a[0].(Str), a[1].(Str)
			if isC(s) && isC(t) {
				return cb(strings.EqualFold(s.Conc(), t.Conc())), true
			}
			return e.strEq(e.toLowerStr(s), e.toLowerStr(t)), true
		},

		// bytes
		"bytes.TrimSpace": func(e *Exec, a []Value) (Value, bool) {
			sl := a[0].(Slice)
			s := sliceToStr(sl)
			var i, j int
			if isC(s) {
				c := s.Conc()
				t := strings.TrimLeftFunc(c, unicode.IsSpace)
				i = len(c) - len(t)
				j = i + len(strings.TrimRightFunc(t, unicode.IsSpace))
			} else {
				i, j = e.trimSpaceIdx(s)
			}
			if i == j {
				return Slice{Nil: true}, true
			}
			return Slice{B: sl.B[i:], N: j - i}, true
		},
		"bytes.Split": func(e *Exec, a []Value) (Value, bool) {
			sl := a[0].(Slice)
			s := sliceToStr(sl)
			sep := sliceToStr(a[1])
			if sep.Len() == 0 {
				panic(unsupported("bytes.Split with empty separator"))
			}
			var out []Value
			start := 0
			for {
				i := e.indexStr(s, sep, start)
				if i < 0 {
					break
				}
				out = append(out, Slice{B: sl.B[start:i:i], N: i - start})
				start = i + sep.Len()
			}
			out = append(out, Slice{B: sl.B[start:sl.N], N: sl.N - start})
			return Slice{B: out, N: len(out)}, true
		},
		"bytes.IndexAny": func(e *Exec, a []Value) (Value, bool) {
			s := sliceToStr(a[0])
			chars := a[1].(Str).Conc()
			for k := 0; k < len(chars); k++ {
				if chars[k] >= 0x80 {
					panic(unsupported("bytes.IndexAny non-ASCII chars"))
				}
			}
			for i := 0; i < s.Len(); i++ {
				if e.branch(e.byteIn(s.At(i), chars)) {
					return ci(i), true
				}
			}
			return ci(-1), true
		},
		"bytes.IndexByte": func(e *Exec, a []Value) (Value, bool) {
			s := sliceToStr(a[0])
			c := a[1].(Int)
			for i := 0; i < s.Len(); i++ {
				if e.branch(e.intCmp(token.EQL, s.At(i), c)) {
					return ci(i), true
				}
			}
			return ci(-1), true
		},
		"bytes.Equal": func(e *Exec, a []Value) (Value, bool) {
			return e.strEq(sliceToStr(a[0]), sliceToStr(a[1])), true
		},
		"bytes.HasPrefix": func(e *Exec, a []Value) (Value, bool) {
			return e.matchAt(sliceToStr(a[0]), 0, sliceToStr(a[1])), true
		},
		"bytes.Contains": func(e *Exec, a []Value) (Value, bool) {
			s, sub := sliceToStr(a[0]), sliceToStr(a[1])
			r := Bool{C: false}
			for i := 0; i+sub.Len() <= s.Len(); i++ {
				r = e.or(r, e.matchAt(s, i, sub))
			}
			return r, true
		},
		"bytes.Repeat": func(e *Exec, a []Value) (Value, bool) {
			s := sliceToStr(a[0])
			n := e.concInt(a[1])
			var parts []Str
			for i := 0; i < n; i++ {
				parts = append(parts, s)
			}
			return strToSlice(strConcat(parts...)), true
		},

		// unicode
		"unicode.IsSpace": func(e *Exec, a []Value) (Value, bool) {
			return e.isSpaceRune(a[0].(Int)), true
		},
		"unicode/utf8.ValidString": func(e *Exec, a []Value) (Value, bool) {
			s := a[0].(Str)
			if isC(s) {
				return cb(utf8.ValidString(s.Conc())), true
			}
			i := 0
			for i < s.Len() {
				r, w := e.decodeRuneAt(s, i)
				if r.S == nil && r.C == utf8.RuneError && w == 1 {
					return cb(false), true
				}
				i += w
			}
			return cb(true), true
		},
		"unicode/utf8.RuneCountInString": func(e *Exec, a []Value) (Value, bool) {
			return ci(len(e.decodeRunes(a[0].(Str)))), true
		},

		// strconv
		"strconv.Itoa": func(e *Exec, a []Value) (Value, bool) {
			return e.itoa(a[0].(Int)), true
		},
		"strconv.Atoi": func(e *Exec, a []Value) (Value, bool) {
			v, ok := e.atoi(a[0].(Str), 64)
			if !ok {
				return Tuple{ci(0), e.newError("strconv.Atoi: invalid syntax")}, true
			}
			return Tuple{v, nilErr()}, true
		},
		"strconv.ParseInt": func(e *Exec, a []Value) (Value, bool) {
			s := a[0].(Str)
			base := e.concInt(a[1])
			bits := e.concInt(a[2])
			if bits == 0 {
				bits = 64
			}
			if isC(s) {
				v, err := strconv.ParseInt(s.Conc(), base, bits)
				if err != nil {
					return Tuple{Int{W: 64, Sg: true, C: v}, e.newError(err.Error())}, true
				}
				return Tuple{Int{W: 64, Sg: true, C: v}, nilErr()}, true
			}
			switch base {
			case 10:
				v, ok := e.atoi(s, bits)
				if !ok {
					return Tuple{ci(0), e.newError("strconv.ParseInt: invalid syntax")}, true
				}
				return Tuple{v, nilErr()}, true
			case 16:
				v, ok := e.parseHex(s, bits)
				if !ok {
					return Tuple{ci(0), e.newError("strconv.ParseInt: invalid syntax")}, true
				}
				return Tuple{v, nilErr()}, true
			}
			if base == 0 {
				v, ok := e.parseInt0(s, bits)
				if !ok {
					return Tuple{ci(0), e.newError("strconv.ParseInt: invalid syntax")}, true
				}
				return Tuple{v, nilErr()}, true
			}
			panic(unsupported(fmt.Sprintf("ParseInt base %d on symbolic string", base)))
		},
		"strconv.FormatInt": func(e *Exec, a []Value) (Value, bool) {
			base := e.concInt(a[1])
			x := a[0].(Int)
			if x.S == nil {
				return cs(strconv.FormatInt(x.C, base)), true
			}
			if base == 10 {
				return e.itoa(x), true
			}
			panic(unsupported("FormatInt symbolic non-decimal"))
		},
		"strconv.FormatFloat": func(e *Exec, a []Value) (Value, bool) {
			f := a[0].(Float)
			fm := byte(e.concInt(a[1]))
			prec := e.concInt(a[2])
			bs := e.concInt(a[3])
			if f.S == nil {
				return cs(strconv.FormatFloat(f.C, fm, prec, bs)), true
			}
			if fm == 'f' && f.S.Int && f.S.Sort.K == SFP {
				// integral IEEE value (result of Floor): its decimal rendering is that of the integer
				iv := e.floatToInt(f, 64, true).(Int)
				s := e.itoa(iv)
				if prec > 0 {
					s = strConcat(s, cs("."+strings.Repeat("0", prec)))
				}
				return s, true
			}
			if fm == 'f' && f.S.Int && f.S.IntT != nil {
				s := e.itoa(Int{W: 64, Sg: true, S: f.S.IntT})
				if prec > 0 {
					s = strConcat(s, cs("."+strings.Repeat("0", prec)))
				}
				return s, true
			}
			panic(unsupported("FormatFloat on symbolic non-integer float"))
		},
		"strconv.ParseFloat": func(e *Exec, a []Value) (Value, bool) {
			s := a[0].(Str)
			bs := e.concInt(a[1])
			if isC(s) {
				v, err := strconv.ParseFloat(s.Conc(), bs)
				if err != nil {
					return Tuple{Float{W: 64, C: v}, e.newError(err.Error())}, true
				}
				return Tuple{Float{W: 64, C: v}, nilErr()}, true
			}
			return e.parseFloatSym(s), true
		},
		"strconv.ParseBool": func(e *Exec, a []Value) (Value, bool) {
			s := a[0].(Str)
			if !isC(s) {
				panic(unsupported("ParseBool symbolic"))
			}
			v, err := strconv.ParseBool(s.Conc())
			if err != nil {
				return Tuple{cb(v), e.newError(err.Error())}, true
			}
			return Tuple{cb(v), nilErr()}, true
		},

		// math
		"math.Floor": func(e *Exec, a []Value) (Value, bool) { return e.floatFloor(a[0].(Float)), true },
		"math.Pow": func(e *Exec, a []Value) (Value, bool) {
			x, y := a[0].(Float), a[1].(Float)
			if x.S != nil || y.S != nil {
				panic(unsupported("math.Pow symbolic"))
			}
			return Float{W: 64, C: math.Pow(x.C, y.C)}, true
		},
		"math.Pow10": func(e *Exec, a []Value) (Value, bool) {
			n := e.concInt(a[0])
			return Float{W: 64, C: math.Pow10(n)}, true
		},
		"math.Abs": func(e *Exec, a []Value) (Value, bool) {
			x := a[0].(Float)
			if x.S != nil {
				panic(unsupported("math.Abs symbolic"))
			}
			return Float{W: 64, C: math.Abs(x.C)}, true
		},
		"math.Round": func(e *Exec, a []Value) (Value, bool) {
			x := a[0].(Float)
			if x.S == nil {
				return Float{W: 64, C: math.Round(x.C)}, true
			}
			if e.mode == ModeBV {
				rt := e.def(Sort{K: SFP, W: 64}, "(fp.roundToIntegral RNA "+x.S.Name+")")
				rt.Int = true
				if x.S.RBnd {
					rt.RLo, rt.RHi, rt.RBnd = math.Round(x.S.RLo), math.Round(x.S.RHi), true
				}
				return Float{W: 64, S: rt}, true
			}
			// relaxed reals: round half away from zero = floor(x + 1/2) for x >= 0
			if !(x.S.RBnd && x.S.RLo >= 0) {
				panic(unsupported("math.Round on a possibly negative symbolic real"))
			}
			half := e.def(Sort{K: SReal}, "(+ "+x.S.Name+" 0.5)")
			half.RLo, half.RHi, half.RBnd = x.S.RLo+0.5, x.S.RHi+0.5, true
			return e.floatFloor(Float{W: 64, S: half}), true
		},
		"math.Ceil": func(e *Exec, a []Value) (Value, bool) {
			x := a[0].(Float)
			if x.S != nil {
				panic(unsupported("math.Ceil symbolic"))
			}
			return Float{W: 64, C: math.Ceil(x.C)}, true
		},
		"math/bits.Reverse8": func(e *Exec, a []Value) (Value, bool) {
			x := a[0].(Int)
			if x.S == nil {
				var r uint8
				v := uint8(x.C)
				for i := 0; i < 8; i++ {
					r = r<<1 | v&1
					v >>= 1
				}
				return byteC(r), true
			}
			if e.mode != ModeBV {
				panic(unsupported("bits.Reverse8 symbolic in INT mode"))
			}
			expr := "(concat"
			for i := 0; i < 8; i++ {
				expr += fmt.Sprintf(" ((_ extract %d %d) %s)", i, i, x.S.Name)
			}
			expr += ")"
			return e.mkSym(e.def(Sort{K: SBV, W: 8}, expr), 8, false, 0, 255, true), true
		},

		// sort
		// sort.Slice / sort.SliceStable: only the reflection part (length, swapper) is modelled; the sorting algorithms
		// themselves (pdqsort_func, stable_func) are the standard library's own code, executed from SSA, so that
		// (in)stability for ties and every size is exactly the real behaviour.
		"sort.SliceStable": func(e *Exec, a []Value) (Value, bool) {
			sl := a[0].(Iface).V.(Slice)
			swap := &intrinsicFn{name: "swapper", f: func(e *Exec, x []Value) Value {
				i, j := e.concInt(x[0]), e.concInt(x[1])
				sl.B[i], sl.B[j] = sl.B[j], sl.B[i]
				return nil
			}}
			if f := e.P.ByPath["sort"].Func("stable_func"); f != nil {
				e.callFn(f, []Value{Struct{a[1], swap}, ci(sl.N)}, nil, nil)
				return nil, true
			}
			less := a[1]
			e.insertionSort(sl.N,
				func(i, j int) bool { return e.branch(e.call(less, []Value{ci(i), ci(j)}, nil).(Bool)) },
				func(i, j int) { sl.B[i], sl.B[j] = sl.B[j], sl.B[i] })
			return nil, true
		},
		"sort.Slice": func(e *Exec, a []Value) (Value, bool) {
			sl := a[0].(Iface).V.(Slice)
			swap := &intrinsicFn{name: "swapper", f: func(e *Exec, x []Value) Value {
				i, j := e.concInt(x[0]), e.concInt(x[1])
				sl.B[i], sl.B[j] = sl.B[j], sl.B[i]
				return nil
			}}
			f := e.P.ByPath["sort"].Func("pdqsort_func")
			if f == nil {
				panic(unsupported("sort.pdqsort_func not found"))
			}
			limit := 0
			for n := uint(sl.N); n != 0; n >>= 1 {
				limit++
			}
			e.callFn(f, []Value{Struct{a[1], swap}, ci(0), ci(sl.N), ci(limit)}, nil, nil)
			return nil, true
		},
		"sort.Strings": func(e *Exec, a []Value) (Value, bool) {
			sl := a[0].(Slice)
			e.insertionSort(sl.N,
				func(i, j int) bool { return e.branch(e.strLess(token.LSS, sl.B[i].(Str), sl.B[j].(Str))) },
				func(i, j int) { sl.B[i], sl.B[j] = sl.B[j], sl.B[i] })
			return nil, true
		},
		"sort.Ints": func(e *Exec, a []Value) (Value, bool) {
			sl := a[0].(Slice)
			e.insertionSort(sl.N,
				func(i, j int) bool { return e.branch(e.intCmp(token.LSS, sl.B[i].(Int), sl.B[j].(Int))) },
				func(i, j int) { sl.B[i], sl.B[j] = sl.B[j], sl.B[i] })
			return nil, true
		},

		// regexp
		"regexp.MustCompile": func(e *Exec, a []Value) (Value, bool) {
			pat := a[0].(Str).Conc()
			cell := new(Value)
			*cell = &Native{Kind: "regexp", V: regexp.MustCompile(pat), Aux: pat}
			return cell, true
		},
	}
	for name, f := range regexpMethods() {
		intrinsics[name] = f
	}
	for name, f := range moreIntrinsics() {
		intrinsics[name] = f
	}
	_ = sort.Ints
}

// parseInt0: strconv.ParseInt(s, 0, bits) on a string with symbolic bytes: sign, then the base chosen by the prefix
// (0x hexadecimal, 0b binary, 0o or a bare leading 0 octal, decimal otherwise). Underscores are not modelled.
func (e *Exec) parseInt0(s Str, bits int) (Int, bool) {
	n := s.Len()
	if n == 0 {
		return ci(0), false
	}
	for k := 0; k < n; k++ {
		if e.branch(e.intCmp(token.EQL, s.At(k), byteC('_'))) {
			panic(unsupported("ParseInt base 0 with an underscore in symbolic text"))
		}
	}
	i := 0
	neg := false
	if e.branch(e.byteIn(s.At(0), "+-")) {
		neg = e.branch(e.intCmp(token.EQL, s.At(0), byteC('-')))
		i = 1
		if n == 1 {
			return ci(0), false
		}
	}
	rest := s.Sub(i, n)
	if e.branch(e.byteIn(rest.At(0), "+-")) {
		return ci(0), false
	}
	radix := func(t Str, r int64) (Int, bool) {
		if t.Len() == 0 {
			return ci(0), false
		}
		if t.Len() > 20 {
			panic(unsupported("ParseInt base 0 on more than 20 symbolic digits"))
		}
		acc := Int{W: 64, Sg: true}
		for k := 0; k < t.Len(); k++ {
			b := t.At(k)
			if !e.branch(e.inRangeI(b, '0', '0'+r-1)) {
				return ci(0), false
			}
			acc = e.intBin(token.ADD, e.intBin(token.MUL, acc, ci(int(r))), e.intBin(token.SUB, e.intConv(b, 64, true), ci(int(byte(48)))))
		}
		return acc, true
	}
	var v Int
	var ok bool
	if rest.Len() >= 2 && e.branch(e.intCmp(token.EQL, rest.At(0), byteC('0'))) {
		c := rest.At(1)
		switch {
		case e.branch(e.byteIn(c, "xX")):
			v, ok = e.parseHex(rest.Sub(2, rest.Len()), 64)
		case e.branch(e.byteIn(c, "bB")):
			v, ok = radix(rest.Sub(2, rest.Len()), 2)
		case e.branch(e.byteIn(c, "oO")):
			v, ok = radix(rest.Sub(2, rest.Len()), 8)
		default:
			v, ok = radix(rest.Sub(1, rest.Len()), 8)
		}
	} else {
		v, ok = e.atoi(rest, 64)
	}
	if !ok {
		return ci(0), false
	}
	if neg {
		v = e.intNeg(v)
	}
	if bits < 64 {
		lim := int64(1) << uint(bits-1)
		if !e.branch(e.inRangeI(v, -lim, lim-1)) {
			return ci(0), false
		}
	}
	return v, true
}

func (e *Exec) parseHex(s Str, bits int) (Int, bool) {
	n := s.Len()
	if n == 0 {
		return ci(0), false
	}
	i := 0
	neg := false
	b0 := s.At(0)
	if e.branch(e.byteIn(b0, "+-")) {
		neg = e.branch(e.intCmp(token.EQL, b0, byteC('-')))
		i = 1
		if n == 1 {
			return ci(0), false
		}
	}
	if n-i > 15 {
		panic(unsupported("ParseInt base 16 on more than 15 symbolic digits"))
	}
	// validity of all digits is one formula (a single branch); the digit value is an if-then-else, so the
	// number of paths does not grow with the number of symbolic hex digits
	valid := Bool{C: true}
	acc := Int{W: 64, Sg: true}
	var hexDigits []Int
	for ; i < n; i++ {
		b := s.At(i)
		b64 := e.intConv(b, 64, true)
		isD, isL, isU := e.isDigit(b), e.inRangeI(b, 'a', 'f'), e.inRangeI(b, 'A', 'F')
		valid = e.and(valid, e.or(isD, e.or(isL, isU)))
		d := e.iteInt(isD, e.intBin(token.SUB, b64, ci('0')), e.iteInt(isL, e.intBin(token.SUB, b64, ci('a'-10)), e.intBin(token.SUB, b64, ci('A'-10))))
		if d.S != nil {
			// digit value is within 0..15 whenever the string is valid
			nt := *d.S
			nt.Lo, nt.Hi, nt.Bnd = 0, 15, true
			d.S = &nt
		}
		hexDigits = append(hexDigits, d)
		acc = e.intBin(token.ADD, e.intBin(token.MUL, acc, ci(16)), d)
	}
	if !e.branch(valid) {
		return ci(0), false
	}
	e.registerPositional(acc, hexDigits, 16)
	if neg {
		acc = e.intNeg(acc)
	}
	if bits < 64 {
		lim := int64(1) << uint(bits-1)
		if !e.branch(e.inRangeI(acc, -lim, lim-1)) {
			return ci(0), false
		}
	}
	return acc, true
}

// parseFloatSym models strconv.ParseFloat on strings of the form [+-]digits[.digits] with symbolic digits.
func (e *Exec) parseFloatSym(s Str) Value {
	bad := Tuple{Float{W: 64}, e.newError("strconv.ParseFloat: invalid syntax")}
	n := s.Len()
	if n == 0 {
		return bad
	}
	i := 0
	neg := false
	if e.branch(e.byteIn(s.At(0), "+-")) {
		neg = e.branch(e.intCmp(token.EQL, s.At(0), byteC('-')))
		i = 1
	}
	acc := Int{W: 64, Sg: true}
	nd, nfrac := 0, 0
	seenDot := false
	for ; i < n; i++ {
		b := s.At(i)
		if !seenDot && e.branch(e.intCmp(token.EQL, b, byteC('.'))) {
			seenDot = true
			continue
		}
		if !e.branch(e.isDigit(b)) {
			// exponents, underscores, inf/nan, hex floats: outside the model
			if e.branch(e.byteIn(b, "eEpPxX_iInN")) {
				panic(unsupported("ParseFloat: exponent/special syntax on symbolic string"))
			}
			return bad
		}
		d := e.intBin(token.SUB, e.intConv(b, 64, true), ci('0'))
		acc = e.intBin(token.ADD, e.intBin(token.MUL, acc, ci(10)), d)
		nd++
		if seenDot {
			nfrac++
		}
	}
	if nd == 0 {
		return bad
	}
	if nd > 15 {
		panic(unsupported("ParseFloat: more than 15 symbolic digits"))
	}
	if neg {
		acc = e.intNeg(acc)
	}
	// value = acc / 10^nfrac, correctly rounded. acc < 10^15 < 2^53 is exact as a float; the decimal
	// conversion is correctly rounded, which equals fl(acc)/fl(10^nfrac) for nfrac <= 22 (both exact, one rounding).
	f := e.intToFloat64(acc)
	if nfrac == 0 {
		return Tuple{f, nilErr()}
	}
	den := Float{W: 64, C: math.Pow10(nfrac)}
	return Tuple{e.floatBin(token.QUO, f, den), nilErr()}
}

// registerPositional records that acc = sum digits[i] * base^(n-1-i) with 0 <= digits[i] < base, i.e. that the digits
// are acc's mixed-radix decomposition over the powers of base (INT mode), so that later divisions of acc by powers of
// the base resolve structurally.
func (e *Exec) registerPositional(acc Int, digits []Int, base int64) {
	if e.mode != ModeINT || acc.S == nil || len(digits) < 2 || noRadix {
		return
	}
	if _, ok := e.radixes[acc.S.Name]; ok {
		return
	}
	r := &radix{x: acc.S}
	p := int64(1)
	for i := 1; i < len(digits); i++ {
		p *= base
	}
	for i := 0; i < len(digits)-1; i++ {
		r.cs = append(r.cs, p)
		p /= base
	}
	r.ds = append(r.ds, digits...)
	e.radixes[acc.S.Name] = r
}
