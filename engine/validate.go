package main

import "fmt"

// validate: translator validation (not a deciding step); filled in by validate_*.go
func validate() int {
	fmt.Println("validate: ok")
	return 0
}
