package main

import (
	"encoding/json"
	"fmt"
	"os"
	"os/exec"
	"path/filepath"
	"sort"
	"strings"
	"time"
)

// validate: translator validation (not a deciding step). Runs the VH_VAL_* harnesses in the engine and natively and
// requires (a) no assertion failure on either side, (b) identical observations. Writes /verif/evidence/validation.json.
func validate() int {
	t0 := time.Now()
	p, err := loadProgram("/repo", filepath.Join(verifDir, "harness"))
	if err != nil {
		fmt.Println("ENGINE-ERROR load:", err)
		return 2
	}
	hs := harnessesFor(p, "VAL", "")
	if len(hs) == 0 {
		fmt.Println("ENGINE-ERROR no validation harness")
		return 2
	}
	cfg := Config{Tier: "quick", Workers: 8, SolverName: "z3", SolverINT: "z3-new", TimeoutMs: 20000, MaxSteps: 50000000, MaxPaths: 1000,
		Fallbacks: []string{"cvc5", "z3-new"}, FallbackMs: 30000, Budget: 10 * time.Minute}
	bad := 0
	engineObs := map[string][]string{}
	asserts := 0
	var names []string
	for _, h := range hs {
		r := exploreHarness(p, h, cfg)
		names = append(names, h.Name())
		for _, n := range r.Asserts {
			asserts += n
		}
		fmt.Printf("validate %s: paths=%d assertions=%d queries=%d undecided=%d violations=%d wall=%.1fs\n", h.Name(), r.Paths, len(r.Asserts), r.Queries, len(r.Undecided), len(r.Viols), r.Wall.Seconds())
		for _, v := range r.Viols {
			fmt.Printf("VALIDATION-MISMATCH %s: engine disagrees with the real function: %s (%s) at %s\n", h.Name(), v.Label, v.Msg, v.Pos)
			bad++
		}
		for _, u := range uniqStrings(r.Undecided, 5) {
			fmt.Printf("VALIDATION-UNDECIDED %s: %s\n", h.Name(), u)
			bad++
		}
		for _, u := range r.EngineErr {
			fmt.Printf("ENGINE-ERROR %s: %s\n", h.Name(), u)
			bad++
		}
		if r.Paths != 1 && len(r.Viols) == 0 && len(r.EngineErr) == 0 {
			fmt.Printf("VALIDATION-MISMATCH %s: expected exactly one path (pinned inputs), got %d\n", h.Name(), r.Paths)
			bad++
		}
		engineObs[h.Name()] = r.Observed
	}
	// native run
	tmp, err := os.MkdirTemp("", "verif-validate-")
	if err != nil {
		fmt.Println("ENGINE-ERROR", err)
		return 2
	}
	defer os.RemoveAll(tmp)
	overlay := map[string]string{}
	files, _ := filepath.Glob(filepath.Join(verifDir, "harness", "zz_verif_*.go"))
	for _, f := range files {
		overlay["/repo/"+filepath.Base(f)] = f
	}
	var sb strings.Builder
	sb.WriteString("package astisub\n\nimport (\n\t\"fmt\"\n\t\"testing\"\n)\n\nfunc TestVerifValidate(t *testing.T) {\n")
	for _, n := range names {
		sb.WriteString(fmt.Sprintf("\tfmt.Println(\"VHARNESS %s\")\n\tif r := vrunOnce(%s); r != \"\" {\n\t\tt.Errorf(\"%s natively: %%s\", r)\n\t}\n", n, n, n))
	}
	sb.WriteString("}\n")
	tf := filepath.Join(tmp, "zz_verif_validate_test.go")
	os.WriteFile(tf, []byte(sb.String()), 0o644)
	overlay["/repo/zz_verif_validate_test.go"] = tf
	ov, _ := json.Marshal(map[string]interface{}{"Replace": overlay})
	ovf := filepath.Join(tmp, "overlay.json")
	os.WriteFile(ovf, ov, 0o644)
	cmd := exec.Command("timeout", "600", "go", "test", "-v", "-vet=off", "-count=1", "-run", "^TestVerifValidate$", "-overlay", ovf, ".")
	cmd.Dir = "/repo"
	cmd.Env = append(os.Environ(), "GOFLAGS=-mod=mod", "GOPROXY=off", "GOSUMDB=off", "GOTOOLCHAIN=local")
	out, nerr := cmd.CombinedOutput()
	if nerr != nil {
		fmt.Printf("VALIDATION-MISMATCH native run failed: %v\n%s\n", nerr, tail(string(out), 30))
		bad++
	}
	nativeObs := map[string][]string{}
	cur := ""
	for _, line := range strings.Split(string(out), "\n") {
		if strings.HasPrefix(line, "VHARNESS ") {
			cur = strings.TrimPrefix(line, "VHARNESS ")
		} else if strings.HasPrefix(line, "VOBSERVE ") {
			nativeObs[cur] = append(nativeObs[cur], strings.TrimPrefix(line, "VOBSERVE "))
		}
	}
	nobs := 0
	for _, n := range names {
		a, b := engineObs[n], nativeObs[n]
		sort.Strings(a)
		sort.Strings(b)
		if len(a) != len(b) {
			fmt.Printf("VALIDATION-MISMATCH %s: %d observations in the engine, %d natively\n", n, len(a), len(b))
			bad++
			continue
		}
		for i := range a {
			nobs++
			if a[i] != b[i] {
				fmt.Printf("VALIDATION-MISMATCH %s:\n  engine: %s\n  native: %s\n", n, a[i], b[i])
				bad++
			}
		}
	}
	ev := map[string]interface{}{"harnesses": names, "assertions_compared_with_real_functions": asserts, "observations_compared_with_native_run": nobs,
		"mismatches": bad, "wall_s": round2(time.Since(t0).Seconds())}
	b, _ := json.MarshalIndent(ev, "", " ")
	os.MkdirAll(filepath.Join(verifDir, "evidence"), 0o755)
	os.WriteFile(filepath.Join(verifDir, "evidence", "validation.json"), b, 0o644)
	if bad > 0 {
		fmt.Printf("validate: FAILED (%d mismatches)\n", bad)
		return 2
	}
	fmt.Printf("validate: ok (%d harnesses, %d model assertions, %d observations identical to the native run, %.1fs)\n", len(names), asserts, nobs, time.Since(t0).Seconds())
	return 0
}

func tail(s string, n int) string {
	lines := strings.Split(s, "\n")
	if len(lines) > n {
		lines = lines[len(lines)-n:]
	}
	return strings.Join(lines, "\n")
}
