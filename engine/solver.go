package main

import (
	"bufio"
	"fmt"
	"io"
	"os"
	"os/exec"
	"strings"
	"time"
)

// Solver wraps one long-lived SMT solver process spoken to in SMT-LIB2 over a pipe.
type Solver struct {
	name    string
	cmd     *exec.Cmd
	in      io.WriteCloser
	out     *bufio.Reader
	buf     strings.Builder
	logf    *os.File
	timeout int // ms per query

	Queries  int
	Sat      int
	Unsat    int
	Unknown  int
	Errors   int
	Time     time.Duration
	lastErr  string
	depth    int
	dead     bool
	scriptSz int
	lastDur  time.Duration
	frames   [][]string
}

func solverArgs(name string, timeoutMs int) (string, []string) {
	switch name {
	case "z3":
		return "z3", []string{"-in"}
	case "z3-new":
		return "z3-new", []string{"-in"}
	case "cvc5":
		return "cvc5", []string{"--incremental", "--lang=smt2", "--produce-models", fmt.Sprintf("--tlimit-per=%d", timeoutMs)}
	}
	return name, []string{"-in"}
}

func NewSolver(name string, timeoutMs int, logPath string) (*Solver, error) {
	bin, args := solverArgs(name, timeoutMs)
	cmd := exec.Command(bin, args...)
	in, err := cmd.StdinPipe()
	if err != nil {
		return nil, err
	}
	outp, err := cmd.StdoutPipe()
	if err != nil {
		return nil, err
	}
	cmd.Stderr = nil
	if err := cmd.Start(); err != nil {
		return nil, err
	}
	s := &Solver{name: name, cmd: cmd, in: in, out: bufio.NewReaderSize(outp, 1<<16), timeout: timeoutMs}
	if logPath != "" {
		s.logf, _ = os.Create(logPath)
	}
	s.preamble()
	return s, nil
}

func (s *Solver) preamble() {
	if strings.HasPrefix(s.name, "z3") {
		s.Send(fmt.Sprintf("(set-option :timeout %d)", s.timeout))
		s.Send("(set-option :model.completion true)")
	} else {
		s.Send("(set-logic ALL)")
	}
}

// Send buffers a command that produces no output.
func (s *Solver) Send(cmd string) {
	s.buf.WriteString(cmd)
	s.buf.WriteByte('\n')
	// mirror of the assertion stack, so that the current context can be replayed one-shot on another solver
	if len(s.frames) == 0 {
		s.frames = [][]string{nil}
	}
	switch {
	case cmd == "(push 1)":
		s.frames = append(s.frames, nil)
	case cmd == "(pop 1)":
		if len(s.frames) > 1 {
			s.frames = s.frames[:len(s.frames)-1]
		}
	case strings.HasPrefix(cmd, "(set-option") || strings.HasPrefix(cmd, "(set-logic") || strings.HasPrefix(cmd, "(echo") || strings.HasPrefix(cmd, "(check-sat") || strings.HasPrefix(cmd, "(get-value") || cmd == "(reset)":
	default:
		s.frames[len(s.frames)-1] = append(s.frames[len(s.frames)-1], cmd)
	}
}

// Context returns the current assertion stack as a flat script (declarations, definitions, assertions).
func (s *Solver) Context() string {
	var sb strings.Builder
	for _, f := range s.frames {
		for _, l := range f {
			sb.WriteString(l)
			sb.WriteByte('\n')
		}
	}
	return sb.String()
}

// oneShot runs a complete script on a fresh solver process; returns sat/unsat/unknown and the get-value output.
func oneShot(name string, script string, names []string, timeoutMs int) (string, map[string]string) {
	var cmd *exec.Cmd
	full := script + "(check-sat)\n"
	if len(names) > 0 {
		full += "(get-value (" + strings.Join(names, " ") + "))\n"
	}
	switch name {
	case "cvc5":
		cmd = exec.Command("cvc5", "--lang=smt2", "--produce-models", fmt.Sprintf("--tlimit=%d", timeoutMs))
		full = "(set-logic ALL)\n" + full
	default:
		cmd = exec.Command(name, "-in", fmt.Sprintf("-t:%d", timeoutMs))
		full = "(set-option :model.completion true)\n" + full
	}
	cmd.Stdin = strings.NewReader(full)
	done := make(chan struct{})
	var out []byte
	go func() {
		out, _ = cmd.Output()
		close(done)
	}()
	select {
	case <-done:
	case <-time.After(time.Duration(timeoutMs+5000) * time.Millisecond):
		if cmd.Process != nil {
			cmd.Process.Kill()
		}
		<-done
		return "unknown", nil
	}
	txt := string(out)
	if strings.Contains(txt, "(error") {
		// an error on get-value after unsat is expected; anything else is inconclusive
		if !strings.HasPrefix(strings.TrimSpace(txt), "unsat") {
			return "unknown", nil
		}
	}
	lines := strings.SplitN(strings.TrimSpace(txt), "\n", 2)
	res := strings.TrimSpace(lines[0])
	if res != "sat" && res != "unsat" {
		return "unknown", nil
	}
	vals := map[string]string{}
	if res == "sat" && len(lines) > 1 {
		if sx, _, err := parseSexp(lines[1], 0); err == nil {
			for _, pair := range sx.list {
				if len(pair.list) == 2 {
					vals[pair.list[0].String()] = pair.list[1].String()
				}
			}
		}
	}
	return res, vals
}

func (s *Solver) flush() error {
	if s.dead {
		return fmt.Errorf("solver dead")
	}
	str := s.buf.String()
	s.buf.Reset()
	if s.logf != nil {
		s.logf.WriteString(str)
	}
	s.scriptSz += len(str)
	_, err := io.WriteString(s.in, str)
	if err != nil {
		s.dead = true
	}
	return err
}

const doneMarker = "<<done>>"

// roundTrip sends cmd and collects all output lines until the marker.
func (s *Solver) roundTrip(cmd string) ([]string, error) {
	s.Send(cmd)
	s.Send("(echo \"" + doneMarker + "\")")
	if err := s.flush(); err != nil {
		return nil, err
	}
	// hard wall-clock limit: a solver that ignores its own time-out (z3 4.8 inside floating-point bit-blasting ran for
	// three hours on one query) is killed; the query is then unknown and the worker starts a fresh process
	limit := time.Duration(2*s.timeout+10000) * time.Millisecond
	watchdog := time.AfterFunc(limit, func() {
		if s.cmd != nil && s.cmd.Process != nil {
			s.cmd.Process.Kill()
		}
	})
	defer watchdog.Stop()
	var lines []string
	for {
		line, err := s.out.ReadString('\n')
		if err != nil {
			s.dead = true
			return lines, fmt.Errorf("solver closed or killed after %v: %v", limit, err)
		}
		line = strings.TrimRight(line, "\r\n")
		t := strings.Trim(line, "\"")
		if t == doneMarker {
			break
		}
		lines = append(lines, line)
	}
	return lines, nil
}

func (s *Solver) Push() { s.Send("(push 1)"); s.depth++ }
func (s *Solver) Pop()  { s.Send("(pop 1)"); s.depth-- }

// Check returns "sat", "unsat" or "unknown" (errors and timeouts are unknown).
func (s *Solver) Check() string {
	t0 := time.Now()
	lines, err := s.roundTrip("(check-sat)")
	s.lastDur = time.Since(t0)
	s.Time += s.lastDur
	s.Queries++
	res := "unknown"
	if err != nil {
		s.Errors++
		s.lastErr = err.Error()
		return res
	}
	sawErr := false
	for _, l := range lines {
		if strings.Contains(l, "(error") {
			sawErr = true
			s.lastErr = l
		}
	}
	for _, l := range lines {
		switch strings.TrimSpace(l) {
		case "sat":
			res = "sat"
		case "unsat":
			res = "unsat"
		}
	}
	if sawErr {
		s.Errors++
		res = "unknown"
	}
	switch res {
	case "sat":
		s.Sat++
	case "unsat":
		s.Unsat++
	default:
		s.Unknown++
	}
	return res
}

// CheckWith checks satisfiability of the current context plus the extra assertion, leaving the context unchanged.
func (s *Solver) CheckWith(extra string) string {
	s.Push()
	s.Send("(assert " + extra + ")")
	r := s.Check()
	s.Pop()
	return r
}

// GetValues must be called right after a sat answer in the same scope.
func (s *Solver) GetValues(names []string) (map[string]string, error) {
	res := map[string]string{}
	if len(names) == 0 {
		return res, nil
	}
	lines, err := s.roundTrip("(get-value (" + strings.Join(names, " ") + "))")
	if err != nil {
		return nil, err
	}
	txt := strings.Join(lines, " ")
	if strings.Contains(txt, "(error") {
		return nil, fmt.Errorf("get-value: %s", txt)
	}
	sx, _, err := parseSexp(txt, 0)
	if err != nil {
		return nil, err
	}
	for _, pair := range sx.list {
		if len(pair.list) == 2 {
			res[pair.list[0].String()] = pair.list[1].String()
		}
	}
	return res, nil
}

func (s *Solver) Reset() {
	s.Send("(reset)")
	s.frames = nil
	s.depth = 0
	s.preamble()
}

func (s *Solver) Close() {
	if s.cmd != nil && s.cmd.Process != nil {
		s.in.Close()
		s.cmd.Process.Kill()
		s.cmd.Wait()
	}
	if s.logf != nil {
		s.logf.Close()
	}
}

// ---- tiny s-expression parser ----

type sexp struct {
	atom string
	list []*sexp
	isL  bool
}

func (x *sexp) String() string {
	if !x.isL {
		return x.atom
	}
	var parts []string
	for _, c := range x.list {
		parts = append(parts, c.String())
	}
	return "(" + strings.Join(parts, " ") + ")"
}

func parseSexp(s string, i int) (*sexp, int, error) {
	for i < len(s) && (s[i] == ' ' || s[i] == '\n' || s[i] == '\t') {
		i++
	}
	if i >= len(s) {
		return nil, i, fmt.Errorf("eof")
	}
	if s[i] == '(' {
		i++
		x := &sexp{isL: true}
		for {
			for i < len(s) && (s[i] == ' ' || s[i] == '\n' || s[i] == '\t') {
				i++
			}
			if i >= len(s) {
				return nil, i, fmt.Errorf("unterminated list")
			}
			if s[i] == ')' {
				return x, i + 1, nil
			}
			c, j, err := parseSexp(s, i)
			if err != nil {
				return nil, j, err
			}
			x.list = append(x.list, c)
			i = j
		}
	}
	if s[i] == '|' {
		j := strings.IndexByte(s[i+1:], '|')
		if j < 0 {
			return nil, i, fmt.Errorf("bad quoted symbol")
		}
		return &sexp{atom: s[i : i+j+2]}, i + j + 2, nil
	}
	j := i
	for j < len(s) && s[j] != ' ' && s[j] != ')' && s[j] != '(' && s[j] != '\n' && s[j] != '\t' {
		j++
	}
	return &sexp{atom: s[i:j]}, j, nil
}
