package main

import (
	"bufio"
	"fmt"
	"io"
	"os"
	"os/exec"
	"strings"
	"time"
)

// Solver wraps one long-lived SMT solver process spoken to in SMT-LIB2 over a pipe.
type Solver struct {
	name    string
	cmd     *exec.Cmd
	in      io.WriteCloser
	out     *bufio.Reader
	buf     strings.Builder
	logf    *os.File
	timeout int // ms per query

	Queries  int
	Sat      int
	Unsat    int
	Unknown  int
	Errors   int
	Time     time.Duration
	lastErr  string
	depth    int
	dead     bool
	scriptSz int
	lastDur  time.Duration
}

func solverArgs(name string, timeoutMs int) (string, []string) {
	switch name {
	case "z3":
		return "z3", []string{"-in"}
	case "z3-new":
		return "z3-new", []string{"-in"}
	case "cvc5":
		return "cvc5", []string{"--incremental", "--lang=smt2", "--produce-models", fmt.Sprintf("--tlimit-per=%d", timeoutMs)}
	}
	return name, []string{"-in"}
}

func NewSolver(name string, timeoutMs int, logPath string) (*Solver, error) {
	bin, args := solverArgs(name, timeoutMs)
	cmd := exec.Command(bin, args...)
	in, err := cmd.StdinPipe()
	if err != nil {
		return nil, err
	}
	outp, err := cmd.StdoutPipe()
	if err != nil {
		return nil, err
	}
	cmd.Stderr = nil
	if err := cmd.Start(); err != nil {
		return nil, err
	}
	s := &Solver{name: name, cmd: cmd, in: in, out: bufio.NewReaderSize(outp, 1<<16), timeout: timeoutMs}
	if logPath != "" {
		s.logf, _ = os.Create(logPath)
	}
	s.preamble()
	return s, nil
}

func (s *Solver) preamble() {
	if strings.HasPrefix(s.name, "z3") {
		s.Send(fmt.Sprintf("(set-option :timeout %d)", s.timeout))
		s.Send("(set-option :model.completion true)")
	} else {
		s.Send("(set-logic ALL)")
	}
}

// Send buffers a command that produces no output.
func (s *Solver) Send(cmd string) {
	s.buf.WriteString(cmd)
	s.buf.WriteByte('\n')
}

func (s *Solver) flush() error {
	if s.dead {
		return fmt.Errorf("solver dead")
	}
	str := s.buf.String()
	s.buf.Reset()
	if s.logf != nil {
		s.logf.WriteString(str)
	}
	s.scriptSz += len(str)
	_, err := io.WriteString(s.in, str)
	if err != nil {
		s.dead = true
	}
	return err
}

const doneMarker = "<<done>>"

// roundTrip sends cmd and collects all output lines until the marker.
func (s *Solver) roundTrip(cmd string) ([]string, error) {
	s.Send(cmd)
	s.Send("(echo \"" + doneMarker + "\")")
	if err := s.flush(); err != nil {
		return nil, err
	}
	var lines []string
	for {
		line, err := s.out.ReadString('\n')
		if err != nil {
			s.dead = true
			return lines, fmt.Errorf("solver closed: %v", err)
		}
		line = strings.TrimRight(line, "\r\n")
		t := strings.Trim(line, "\"")
		if t == doneMarker {
			break
		}
		lines = append(lines, line)
	}
	return lines, nil
}

func (s *Solver) Push() { s.Send("(push 1)"); s.depth++ }
func (s *Solver) Pop()  { s.Send("(pop 1)"); s.depth-- }

// Check returns "sat", "unsat" or "unknown" (errors and timeouts are unknown).
func (s *Solver) Check() string {
	t0 := time.Now()
	lines, err := s.roundTrip("(check-sat)")
	s.lastDur = time.Since(t0)
	s.Time += s.lastDur
	s.Queries++
	res := "unknown"
	if err != nil {
		s.Errors++
		s.lastErr = err.Error()
		return res
	}
	sawErr := false
	for _, l := range lines {
		if strings.Contains(l, "(error") {
			sawErr = true
			s.lastErr = l
		}
	}
	for _, l := range lines {
		switch strings.TrimSpace(l) {
		case "sat":
			res = "sat"
		case "unsat":
			res = "unsat"
		}
	}
	if sawErr {
		s.Errors++
		res = "unknown"
	}
	switch res {
	case "sat":
		s.Sat++
	case "unsat":
		s.Unsat++
	default:
		s.Unknown++
	}
	return res
}

// CheckWith checks satisfiability of the current context plus the extra assertion, leaving the context unchanged.
func (s *Solver) CheckWith(extra string) string {
	s.Push()
	s.Send("(assert " + extra + ")")
	r := s.Check()
	s.Pop()
	return r
}

// GetValues must be called right after a sat answer in the same scope.
func (s *Solver) GetValues(names []string) (map[string]string, error) {
	res := map[string]string{}
	if len(names) == 0 {
		return res, nil
	}
	lines, err := s.roundTrip("(get-value (" + strings.Join(names, " ") + "))")
	if err != nil {
		return nil, err
	}
	txt := strings.Join(lines, " ")
	if strings.Contains(txt, "(error") {
		return nil, fmt.Errorf("get-value: %s", txt)
	}
	sx, _, err := parseSexp(txt, 0)
	if err != nil {
		return nil, err
	}
	for _, pair := range sx.list {
		if len(pair.list) == 2 {
			res[pair.list[0].String()] = pair.list[1].String()
		}
	}
	return res, nil
}

func (s *Solver) Reset() {
	s.Send("(reset)")
	s.depth = 0
	s.preamble()
}

func (s *Solver) Close() {
	if s.cmd != nil && s.cmd.Process != nil {
		s.in.Close()
		s.cmd.Process.Kill()
		s.cmd.Wait()
	}
	if s.logf != nil {
		s.logf.Close()
	}
}

// ---- tiny s-expression parser ----

type sexp struct {
	atom string
	list []*sexp
	isL  bool
}

func (x *sexp) String() string {
	if !x.isL {
		return x.atom
	}
	var parts []string
	for _, c := range x.list {
		parts = append(parts, c.String())
	}
	return "(" + strings.Join(parts, " ") + ")"
}

func parseSexp(s string, i int) (*sexp, int, error) {
	for i < len(s) && (s[i] == ' ' || s[i] == '\n' || s[i] == '\t') {
		i++
	}
	if i >= len(s) {
		return nil, i, fmt.Errorf("eof")
	}
	if s[i] == '(' {
		i++
		x := &sexp{isL: true}
		for {
			for i < len(s) && (s[i] == ' ' || s[i] == '\n' || s[i] == '\t') {
				i++
			}
			if i >= len(s) {
				return nil, i, fmt.Errorf("unterminated list")
			}
			if s[i] == ')' {
				return x, i + 1, nil
			}
			c, j, err := parseSexp(s, i)
			if err != nil {
				return nil, j, err
			}
			x.list = append(x.list, c)
			i = j
		}
	}
	if s[i] == '|' {
		j := strings.IndexByte(s[i+1:], '|')
		if j < 0 {
			return nil, i, fmt.Errorf("bad quoted symbol")
		}
		return &sexp{atom: s[i : i+j+2]}, i + j + 2, nil
	}
	j := i
	for j < len(s) && s[j] != ' ' && s[j] != ')' && s[j] != '(' && s[j] != '\n' && s[j] != '\t' {
		j++
	}
	return &sexp{atom: s[i:j]}, j, nil
}
