package main

import (
	"encoding/json"
	"flag"
	"fmt"
	"os"
	"os/exec"
	"path/filepath"
	"regexp"
	"runtime"
	"runtime/debug"
	"runtime/pprof"
	"sort"
	"strconv"
	"strings"
	"time"

	"golang.org/x/tools/go/ssa"
)

const verifDir = "/verif"

func main() {
	gogc := 150
	if v := os.Getenv("VERIF_GOGC"); v != "" {
		gogc, _ = strconv.Atoi(v)
	}
	debug.SetGCPercent(gogc)
	if len(os.Args) < 2 {
		fmt.Fprintln(os.Stderr, "usage: ssasmt run|validate|list ...")
		os.Exit(2)
	}
	switch os.Args[1] {
	case "run":
		os.Exit(cmdRun(os.Args[2:]))
	case "list":
		os.Exit(cmdList(os.Args[2:]))
	case "replay":
		os.Exit(cmdReplay(os.Args[2:]))
	case "validate":
		os.Exit(cmdValidate(os.Args[2:]))
	}
	fmt.Fprintln(os.Stderr, "unknown command", os.Args[1])
	os.Exit(2)
}

func harnessesFor(p *Program, prop string, only string) []*ssa.Function {
	var hs []*ssa.Function
	for name, m := range p.Main.Members {
		f, ok := m.(*ssa.Function)
		if !ok {
			continue
		}
		if !strings.HasPrefix(name, "VH_"+prop+"_") {
			continue
		}
		if only != "" && name != only {
			continue
		}
		hs = append(hs, f)
	}
	sort.Slice(hs, func(i, j int) bool { return hs[i].Name() < hs[j].Name() })
	return hs
}

func cmdList(args []string) int {
	p, err := loadProgram("/repo", filepath.Join(verifDir, "harness"))
	if err != nil {
		fmt.Fprintln(os.Stderr, err)
		return 2
	}
	var names []string
	for name := range p.Main.Members {
		if strings.HasPrefix(name, "VH_") {
			names = append(names, name)
		}
	}
	sort.Strings(names)
	for _, n := range names {
		fmt.Println(n)
	}
	return 0
}

type Finding struct {
	Kind     string // "finding" or "fixed"
	Property string
	Harness  string
	Label    string
	Text     string
}

var reKV = regexp.MustCompile(`(\w+)=("([^"]*)"|\S+)`)

func loadFindings() []Finding {
	b, err := os.ReadFile(filepath.Join(verifDir, "known_findings.txt"))
	if err != nil {
		return nil
	}
	var fs []Finding
	for _, line := range strings.Split(string(b), "\n") {
		line = strings.TrimSpace(line)
		if line == "" || strings.HasPrefix(line, "#") {
			continue
		}
		var f Finding
		if strings.HasPrefix(line, "finding:") {
			f.Kind = "finding"
		} else if strings.HasPrefix(line, "fixed:") {
			f.Kind = "fixed"
		} else {
			continue
		}
		for _, m := range reKV.FindAllStringSubmatch(line, -1) {
			v := m[2]
			if m[3] != "" || strings.HasPrefix(v, "\"") {
				v = m[3]
			}
			switch m[1] {
			case "property":
				f.Property = v
			case "harness":
				f.Harness = v
			case "label":
				f.Label = v
			}
		}
		f.Text = line
		fs = append(fs, f)
	}
	return fs
}

func cmdRun(args []string) int {
	fs := flag.NewFlagSet("run", flag.ExitOnError)
	prop := fs.String("prop", "", "property id")
	tier := fs.String("tier", "quick", "quick|thorough")
	only := fs.String("harness", "", "only this harness")
	workers := fs.Int("workers", 0, "worker count")
	verbose := fs.Bool("v", false, "verbose")
	logdir := fs.String("logdir", "", "dump SMT scripts here")
	maxPaths := fs.Int("maxpaths", 0, "path cap per harness (0 = tier default)")
	noReplay := fs.Bool("noreplay", false, "do not replay counterexamples natively")
	noEvidence := fs.Bool("noevidence", false, "do not write the evidence file")
	solver := fs.String("solver", "z3", "solver for bit-vector harnesses: z3|z3-new|cvc5")
	solverInt := fs.String("solver-int", "z3-new", "solver for integer/real harnesses")
	timeout := fs.Int("timeout", 0, "per-query timeout ms")
	repo := fs.String("repo", "/repo", "repository")
	cpuprof := fs.String("cpuprofile", "", "write cpu profile")
	fs.Parse(args)
	if *cpuprof != "" {
		f, _ := os.Create(*cpuprof)
		pprof.StartCPUProfile(f)
		defer pprof.StopCPUProfile()
	}
	if os.Getenv("VERIF_TIER") != "" && *tier == "" {
		*tier = os.Getenv("VERIF_TIER")
	}
	seed := 0
	if s := os.Getenv("VERIF_SEED"); s != "" {
		seed, _ = strconv.Atoi(s)
	}
	t0 := time.Now()
	p, err := loadProgramFor(*repo, filepath.Join(verifDir, "harness"), *prop)
	if err != nil {
		fmt.Println("ENGINE-ERROR load:", err)
		return 2
	}
	hs := harnessesFor(p, *prop, *only)
	if len(hs) == 0 {
		fmt.Println("ENGINE-ERROR no harness for", *prop)
		return 2
	}
	currentTier = *tier
	cfg := Config{Tier: *tier, Workers: *workers, SolverName: *solver, SolverINT: *solverInt, LogDir: *logdir, Verbose: *verbose}
	if cfg.Workers == 0 {
		cfg.Workers = runtime.NumCPU()
		if cfg.Workers > 16 {
			cfg.Workers = 16
		}
	}
	if *tier == "thorough" {
		cfg.TimeoutMs, cfg.MaxSteps, cfg.MaxPaths, cfg.Budget = 60000, 20000000, 2000000, 40*time.Minute
		cfg.Witnesses = 32
	} else {
		cfg.TimeoutMs, cfg.MaxSteps, cfg.MaxPaths, cfg.Budget = 10000, 5000000, 200000, 5*time.Minute
		cfg.Witnesses = 8
	}
	if *noReplay {
		cfg.Witnesses = 0
	}
	if *timeout > 0 {
		cfg.TimeoutMs = *timeout
	}
	if *tier == "thorough" {
		checkIval = true // engine self-check: every derived interval is confirmed by the solver
	}
	cfg.Fallbacks = []string{"cvc5", "z3-new"}
	cfg.FallbackMs = 30000
	if *tier == "thorough" {
		cfg.FallbackMs = 180000
	}
	if *maxPaths > 0 {
		cfg.MaxPaths = *maxPaths
	}
	findings := loadFindings()
	var results []*HarnessResult
	exit := 0
	nviol := 0
	for _, h := range hs {
		r := exploreHarness(p, h, cfg)
		results = append(results, r)
		fmt.Printf("harness %s mode=%s paths=%d infeasible=%d undecided=%d unwind=%d queries=%d (sat %d unsat %d unknown %d) solver=%.1fs wall=%.1fs\n",
			r.Name, r.Mode, r.Paths, r.Infeasible, len(r.Undecided), len(r.Unwind), r.Queries, r.Sat, r.Unsat, r.Unknown, r.SolverTime.Seconds(), r.Wall.Seconds())
	}
	if !*noReplay {
		runWitnesses(p, *prop, *tier, results)
	}
	for _, r := range results {
		for _, u := range uniqStrings(r.Undecided, 8) {
			fmt.Println("  UNDECIDED:", u)
		}
		for _, u := range uniqStrings(r.Unwind, 4) {
			fmt.Println("  UNWIND-FAILURE:", u)
		}
		for _, u := range uniqStrings(r.EngineErr, 3) {
			fmt.Println("ENGINE-ERROR", r.Name, u)
			exit = 2
		}
		if r.Truncated {
			fmt.Println("  TRUNCATED: path cap reached; exploration incomplete")
		}
		// vacuity
		if !r.Truncated && len(r.EngineErr) == 0 && len(r.Viols) == 0 {
			if r.Paths == 0 {
				fmt.Printf("ENGINE-ERROR %s: vacuous harness, no feasible path reaches its end\n", r.Name)
				exit = 2
			}
			for _, l := range r.ExpectReach {
				if !r.Reached[l] {
					if len(r.Undecided) > 0 || len(r.Unwind) > 0 {
						fmt.Printf("  NOTE: reach marker %q not reached (some paths undecided)\n", l)
					} else {
						fmt.Printf("ENGINE-ERROR %s: reach marker %q never reached (vacuity)\n", r.Name, l)
						exit = 2
					}
				}
			}
		}
		// violations
		seenKnown := map[string]bool{}
		seenViol := map[string]bool{}
		for i := range r.Viols {
			v := &r.Viols[i]
			key := v.Kind + "|" + v.Label
			if f := matchFinding(findings, *prop, r.Name, v.Label); f != nil {
				if !seenKnown[key] {
					seenKnown[key] = true
					ok := "replay skipped"
					if !*noReplay {
						rep, _, _ := replayViolation(p, *prop, v, len(seenKnown))
						if rep {
							ok = "reproduced natively"
						} else {
							ok = "NOT reproduced natively"
						}
					}
					fmt.Printf("KNOWN-FINDING: property=%s harness=%s label=%q (%s) input: %s\n", *prop, r.Name, v.Label, ok, vecString(v.Vec))
				}
				continue
			}
			if seenViol[key] {
				continue
			}
			if *noReplay {
				seenViol[key] = true
				nviol++
				fmt.Printf("VIOLATION property=%s replay=(not replayed) harness=%s label=%q at %s input: %s\n", *prop, r.Name, v.Label, v.Pos, vecString(v.Vec))
				exit = max(exit, 1)
				continue
			}
			rep, path, out := replayViolation(p, *prop, v, nviol)
			if rep {
				seenViol[key] = true
				nviol++
				fmt.Printf("VIOLATION property=%s replay=%s\n", *prop, path)
				fmt.Printf("  harness=%s %s label=%q at %s %s\n  input: %s\n", r.Name, v.Kind, v.Label, v.Pos, v.Msg, vecString(v.Vec))
				if exit < 1 {
					exit = 1
				}
			} else {
				fmt.Printf("  SPURIOUS (not reproduced natively, counted as undecided): harness=%s label=%q at %s input: %s\n", r.Name, v.Label, v.Pos, vecString(v.Vec))
				if *verbose {
					fmt.Println(out)
				}
				r.Undecided = append(r.Undecided, "candidate for "+v.Label+" did not reproduce natively")
			}
		}
	}
	if !*noEvidence {
		if err := writeEvidence(*prop, *tier, seed, results, time.Since(t0), nviol, cfg); err != nil {
			fmt.Println("ENGINE-ERROR evidence:", err)
			return 2
		}
	}
	if exit == 0 {
		fmt.Printf("OK property=%s tier=%s harnesses=%d wall=%.1fs\n", *prop, *tier, len(results), time.Since(t0).Seconds())
	}
	return exit
}

func matchFinding(fs []Finding, prop, harness, label string) *Finding {
	for i := range fs {
		f := &fs[i]
		if f.Kind != "finding" || f.Property != prop {
			continue
		}
		if f.Harness != "" && f.Harness != harness {
			continue
		}
		if f.Label != "" && f.Label != label {
			continue
		}
		return f
	}
	return nil
}

func vecString(vec []VecEntry) string {
	var parts []string
	for _, v := range vec {
		parts = append(parts, fmt.Sprintf("%s:%d", v.Kind[:1], v.Val))
	}
	s := strings.Join(parts, " ")
	if len(s) > 400 {
		s = s[:400] + "…"
	}
	return s
}

// ---------- replay ----------

type replayFile struct {
	Property string  `json:"property"`
	Harness  string  `json:"harness"`
	Label    string  `json:"label"`
	Kind     string  `json:"kind"`
	Tier     string  `json:"tier"`
	Vector   []int64 `json:"vector"`
	Kinds    string  `json:"kinds"`
}

// currentTier is the tier of this run; a replay must use the same harness bounds.
var currentTier string

func replayViolation(p *Program, prop string, v *Violation, n int) (bool, string, string) {
	dir := filepath.Join(verifDir, "replays", prop)
	os.MkdirAll(dir, 0o755)
	rf := replayFile{Property: prop, Harness: v.Harness, Label: v.Label, Kind: v.Kind, Tier: currentTier}
	for _, x := range v.Vec {
		rf.Vector = append(rf.Vector, x.Val)
		rf.Kinds += x.Kind[:1]
	}
	path := filepath.Join(dir, fmt.Sprintf("%s_%d.json", v.Harness, n))
	b, _ := json.MarshalIndent(rf, "", " ")
	os.WriteFile(path, b, 0o644)
	ok, out := runReplay(p.RepoDir, path)
	return ok, path, out
}

// runReplay compiles the harness natively against the repository (overlay) and runs it on the vector.
func runReplay(repo, path string) (bool, string) {
	b, err := os.ReadFile(path)
	if err != nil {
		return false, err.Error()
	}
	var rf replayFile
	if err := json.Unmarshal(b, &rf); err != nil {
		return false, err.Error()
	}
	tmp, err := os.MkdirTemp("", "verif-replay-")
	if err != nil {
		return false, err.Error()
	}
	defer os.RemoveAll(tmp)
	overlay := map[string]string{}
	files := harnessFiles
	if files == nil {
		files, _ = filepath.Glob(filepath.Join(verifDir, "harness", "zz_verif_*.go"))
	}
	for _, f := range files {
		overlay[filepath.Join(repo, filepath.Base(f))] = f
	}
	test := fmt.Sprintf(`package astisub

import "testing"

func TestVerifReplay(t *testing.T) {
	vreplayRun(t, %q, %s)
}
`, path, rf.Harness)
	tf := filepath.Join(tmp, "zz_verif_replay_test.go")
	os.WriteFile(tf, []byte(test), 0o644)
	overlay[filepath.Join(repo, "zz_verif_replay_test.go")] = tf
	ov, _ := json.Marshal(map[string]interface{}{"Replace": overlay})
	ovf := filepath.Join(tmp, "overlay.json")
	os.WriteFile(ovf, ov, 0o644)
	args := []string{"300", "go", "test", "-vet=off", "-count=1", "-run", "^TestVerifReplay$", "-overlay", ovf}
	race := strings.Contains(rf.Label, "package-level state")
	if race {
		args = append(args, "-race")
	}
	args = append(args, ".")
	cmd := exec.Command("timeout", args...)
	cmd.Dir = repo
	cmd.Env = append(os.Environ(), "GOFLAGS=-mod=mod", "GOPROXY=off", "GOSUMDB=off", "GOTOOLCHAIN=local")
	if rf.Tier != "" {
		cmd.Env = append(cmd.Env, "VERIF_TIER="+rf.Tier) // the harness bounds (vbound) of the tier the vector was found in
	}
	out, _ := cmd.CombinedOutput()
	s := string(out)
	if race {
		return raceInLibrary(s) || strings.Contains(s, "concurrent map"), s
	}
	return strings.Contains(s, "VERIF-REPRODUCED"), s
}

func cmdReplay(args []string) int {
	if len(args) < 1 {
		fmt.Println("usage: ssasmt replay <path>")
		return 2
	}
	ok, out := runReplay("/repo", args[0])
	fmt.Println(out)
	if ok {
		fmt.Println("REPRODUCED")
		return 1
	}
	fmt.Println("NOT REPRODUCED")
	return 0
}

// ---------- evidence ----------

func keys(m map[string]bool) []string {
	var r []string
	for k := range m {
		r = append(r, k)
	}
	sort.Strings(r)
	return r
}

func writeEvidence(prop, tier string, seed int, rs []*HarnessResult, wall time.Duration, nviol int, cfg Config) error {
	states, trans, queries, sat, unsat, unknown, serr, nontriv := 0, 0, 0, 0, 0, 0, 0, 0
	var stime time.Duration
	funcs, intr, stubs := map[string]bool{}, map[string]bool{}, map[string]bool{}
	var samples []interface{}
	var harn []interface{}
	exhaustive := true
	var undec, unwind []string
	witN, witOK, witSkip := 0, 0, 0
	for _, r := range rs {
		witN += len(r.Witnesses)
		witOK += r.WitOK
		witSkip += r.WitSkip
		states += r.Paths
		trans += r.Decisions
		queries += r.Queries
		sat += r.Sat
		unsat += r.Unsat
		unknown += r.Unknown
		serr += r.SolverErr
		stime += r.SolverTime
		nontriv += r.NontrivPath
		for k := range r.Funcs {
			if !strings.Contains(k, "VH_") {
				funcs[k] = true
			}
		}
		for k := range r.Intrinsics {
			intr[k] = true
		}
		for k := range r.Stubs {
			stubs[k] = true
		}
		for _, s := range r.Samples {
			samples = append(samples, map[string]string{"harness": r.Name, "path": s})
		}
		if len(r.Undecided) > 0 || len(r.Unwind) > 0 || r.Truncated || r.Unknown > 0 {
			exhaustive = false
		}
		for _, u := range uniqStrings(r.Undecided, 10) {
			undec = append(undec, r.Name+": "+u)
		}
		for _, u := range uniqStrings(r.Unwind, 5) {
			unwind = append(unwind, r.Name+": "+u)
		}
		var reach []string
		for _, l := range r.ExpectReach {
			if r.Reached[l] {
				reach = append(reach, l)
			}
		}
		harn = append(harn, map[string]interface{}{
			"name": r.Name, "integer_encoding": r.Mode, "paths": r.Paths, "infeasible_paths": r.Infeasible,
			"paths_with_symbolic_assertion": r.NontrivPath, "branch_decisions": r.Decisions,
			"assertions_checked": r.Asserts, "bounds": r.Bounds, "reach_witnesses": reach,
			"queries": map[string]int{"total": r.Queries, "sat": r.Sat, "unsat": r.Unsat, "unknown": r.Unknown, "error": r.SolverErr},
			"solver_time_s": round2(r.SolverTime.Seconds()), "wall_s": round2(r.Wall.Seconds()),
			"ssa_instructions_executed": r.Steps, "wraparound_encodings": r.Wraps, "nonlinear_terms": r.Nonlinear,
			"float_roundings_relaxed": r.FloatRounds, "one_shot_fallback_queries": r.FbQueries, "decided_by_fallback_solver": r.FbDecided, "undecided_paths": len(r.Undecided), "unwinding_failures": len(r.Unwind),
			"truncated": r.Truncated, "notes": keys(r.Notes),
		})
	}
	if len(samples) == 0 {
		samples = append(samples, "no completed path")
	}
	if states == 0 {
		states = 1
	}
	if trans == 0 {
		trans = 1
	}
	ev := map[string]interface{}{
		"property_id": prop,
		"tier":        tier,
		"seed":        seed,
		"level":       "model_checking",
		"wall_s":      round2(wall.Seconds()),
		"violations":  nviol,
		"coverage": map[string]interface{}{
			"states":                        states,
			"transitions":                   trans,
			"traces_validated_against_impl": witOK,
			"native_cross_validation":       map[string]interface{}{"sampled_paths": witN, "native_run_agrees": witOK, "not_comparable": witSkip, "rule": "for a sample of completed paths (1st, 2nd, 4th, 8th, ... and every 61st, capped per harness) the solver's model of the path condition is run through the natively compiled harness against the real package; agreement = the native run also passes every assertion; a native failure is reported as a violation; not comparable = the native run left the input domain (an over-approximated step of the encoding, e.g. relaxed float rounding, picked a value the real code does not produce) or the harness is engine-only (captured XML value)"},
			"samples":                       samples,
			"evaluations":                   queries,
			"distinct_nontrivial":           nontriv,
			"rule":                          "one case = one feasible symbolic path of a harness (a distinct sequence of branch outcomes through the real code); non-trivial = the path reached a property assertion whose condition still depended on symbolic inputs, so the solver decided it for all values on that path",
			"exhaustive":                    exhaustive,
			"functions_encoded":             keys(funcs),
			"intrinsics":                    keys(intr),
			"stubs":                         keys(stubs),
			"harnesses":                     harn,
			"queries":                       map[string]int{"total": queries, "sat": sat, "unsat": unsat, "unknown": unknown, "error": serr},
			"solver":                        "bit-vector harnesses: " + cfg.SolverName + "; integer/real harnesses: " + cfg.SolverINT,
			"solver_time_s":                 round2(stime.Seconds()),
			"per_query_timeout_ms":          cfg.TimeoutMs,
			"undecided":                     undec,
			"unwinding_failures":            unwind,
		},
		"assumptions": []string{
			"claims hold only inside the bounds listed per harness (coverage.harnesses[].bounds and DESIGN.md section 5)",
			"standard-library models listed under coverage.intrinsics are trusted after validation against the real functions",
			"environment stubs listed under coverage.stubs return arbitrary values within their documented contract",
			"the SMT solver's unsat answers are trusted; sat answers are replayed against the natively compiled package before being reported",
			"64-bit platform (int = 64 bits)",
		},
	}
	b, err := json.MarshalIndent(ev, "", " ")
	if err != nil {
		return err
	}
	os.MkdirAll(filepath.Join(verifDir, "evidence"), 0o755)
	return os.WriteFile(filepath.Join(verifDir, "evidence", prop+".json"), b, 0o644)
}

func round2(f float64) float64 {
	return float64(int64(f*100+0.5)) / 100
}

func cmdValidate(args []string) int {
	return validate()
}

// runWitnesses re-runs, natively, the sampled model inputs of completed paths (one `go test` for all harnesses). A
// native assertion failure or panic on such an input is a concrete failing run of the real code: it is turned into a
// violation candidate (then replayed and matched against the known findings like any other).
func runWitnesses(p *Program, prop, tier string, rs []*HarnessResult) {
	type wit struct {
		Harness string  `json:"harness"`
		Vector  []int64 `json:"vector"`
		Kinds   string  `json:"kinds"`
	}
	var batch []wit
	var owner []*HarnessResult
	var vecs [][]VecEntry
	names := map[string]bool{}
	for _, r := range rs {
		for _, w := range r.Witnesses {
			x := wit{Harness: r.Name, Vector: []int64{}}
			for _, v := range w {
				x.Vector = append(x.Vector, v.Val)
				x.Kinds += v.Kind[:1]
			}
			batch = append(batch, x)
			owner = append(owner, r)
			vecs = append(vecs, w)
			names[r.Name] = true
		}
	}
	if len(batch) == 0 {
		return
	}
	tmp, err := os.MkdirTemp("", "verif-witness-")
	if err != nil {
		return
	}
	defer os.RemoveAll(tmp)
	bf := filepath.Join(tmp, "batch.json")
	b, _ := json.Marshal(map[string]interface{}{"tier": tier, "runs": batch})
	os.WriteFile(bf, b, 0o644)
	overlay := map[string]string{}
	files := harnessFiles
	if files == nil {
		files, _ = filepath.Glob(filepath.Join(verifDir, "harness", "zz_verif_*.go"))
	}
	for _, f := range files {
		overlay[filepath.Join(p.RepoDir, filepath.Base(f))] = f
	}
	var tb strings.Builder
	tb.WriteString("package astisub\n\nimport \"testing\"\n\nfunc TestVerifWitness(t *testing.T) {\n\tvwitnessRun(t, ")
	tb.WriteString(strconv.Quote(bf))
	tb.WriteString(", map[string]func(){\n")
	var ns []string
	for n := range names {
		ns = append(ns, n)
	}
	sort.Strings(ns)
	for _, n := range ns {
		fmt.Fprintf(&tb, "\t\t%q: %s,\n", n, n)
	}
	tb.WriteString("\t})\n}\n")
	tf := filepath.Join(tmp, "zz_verif_witness_test.go")
	os.WriteFile(tf, []byte(tb.String()), 0o644)
	overlay[filepath.Join(p.RepoDir, "zz_verif_witness_test.go")] = tf
	ov, _ := json.Marshal(map[string]interface{}{"Replace": overlay})
	ovf := filepath.Join(tmp, "overlay.json")
	os.WriteFile(ovf, ov, 0o644)
	cmd := exec.Command("timeout", "600", "go", "test", "-vet=off", "-count=1", "-v", "-run", "^TestVerifWitness$", "-overlay", ovf, ".")
	cmd.Dir = p.RepoDir
	cmd.Env = append(os.Environ(), "GOFLAGS=-mod=mod", "GOPROXY=off", "GOSUMDB=off", "GOTOOLCHAIN=local", "VERIF_TIER="+tier)
	out, _ := cmd.CombinedOutput()
	seen := 0
	for _, line := range strings.Split(string(out), "\n") {
		if !strings.HasPrefix(line, "VERIF-WITNESS ") {
			continue
		}
		f := strings.SplitN(line, " ", 4)
		if len(f) < 3 {
			continue
		}
		idx, err := strconv.Atoi(f[1])
		if err != nil || idx < 0 || idx >= len(batch) {
			continue
		}
		seen++
		r := owner[idx]
		switch f[2] {
		case "OK":
			r.WitOK++
		case "SKIP":
			r.WitSkip++
		case "FAIL":
			res := ""
			if len(f) > 3 {
				res = f[3]
			}
			r.WitFail = append(r.WitFail, res)
			v := Violation{Harness: r.Name, Kind: "assert", Label: strings.TrimPrefix(res, "assert: "), Msg: "native run of a sampled path input fails where the engine passed", Pos: "(native)", Vec: vecs[idx]}
			if strings.HasPrefix(res, "panic: ") {
				v.Kind, v.Label = "panic", "panic: "+normPanic(strings.TrimPrefix(res, "panic: "))
			}
			r.Viols = append(r.Viols, v)
		}
	}
	if seen != len(batch) {
		msg := string(out)
		if len(msg) > 1500 {
			msg = msg[len(msg)-1500:]
		}
		fmt.Printf("  NOTE: native cross-validation incomplete (%d of %d sampled inputs ran): %s\n", seen, len(batch), msg)
	}
}

// raceInLibrary: does the race detector's output contain a report in which at least one of the two conflicting accesses
// is in library code? Reports whose two accesses are both in the harness's own files (its replay cursor, provider
// state shared by the goroutines of the concurrent replay) say nothing about the library.
func raceInLibrary(out string) bool {
	blocks := strings.Split(out, "WARNING: DATA RACE")
	for _, b := range blocks[1:] {
		if i := strings.Index(b, "=================="); i >= 0 {
			b = b[:i]
		}
		lines := strings.Split(b, "\n")
		tops := 0
		lib := false
		for i := 0; i < len(lines); i++ {
			l := strings.TrimSpace(lines[i])
			if strings.HasPrefix(l, "Write at") || strings.HasPrefix(l, "Read at") || strings.HasPrefix(l, "Previous write at") || strings.HasPrefix(l, "Previous read at") {
				// the top frame of this access: function line, then file line
				if i+2 < len(lines) {
					file := strings.TrimSpace(lines[i+2])
					tops++
					if !strings.Contains(file, "zz_verif_") {
						lib = true
					}
				}
			}
		}
		if tops > 0 && lib {
			return true
		}
	}
	return false
}
