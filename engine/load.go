package main

import (
	"fmt"
	"go/types"
	"os"
	"path/filepath"
	"sort"
	"strings"

	"golang.org/x/tools/go/packages"
	"golang.org/x/tools/go/ssa"
	"golang.org/x/tools/go/ssa/ssautil"
)

type Program struct {
	Prog    *ssa.Program
	Pkgs    []*packages.Package
	Main    *ssa.Package // astisub
	CLI     *ssa.Package // the astisub command (package main in /repo/astisub), nil if absent
	ByPath  map[string]*ssa.Package
	Sizes   types.Sizes
	RepoDir string
	Overlay map[string][]byte
}

// loadProgram loads /repo's current working tree plus the harness overlay and builds SSA.
func loadProgram(repo string, harnessDir string) (*Program, error) {
	overlay := map[string][]byte{}
	files, _ := filepath.Glob(filepath.Join(harnessDir, "zz_verif_*.go"))
	sort.Strings(files)
	for _, f := range files {
		if strings.HasSuffix(f, "_test.go") {
			continue
		}
		b, err := os.ReadFile(f)
		if err != nil {
			return nil, err
		}
		overlay[filepath.Join(repo, filepath.Base(f))] = b
	}
	cfg := &packages.Config{
		Mode:    packages.LoadAllSyntax,
		Dir:     repo,
		Overlay: overlay,
		Env:     append(os.Environ(), "GOFLAGS=-mod=mod", "GOPROXY=off", "GOSUMDB=off", "GOTOOLCHAIN=local"),
	}
	patterns := []string{"."}
	if st, err := os.Stat(filepath.Join(repo, "astisub", "main.go")); err == nil && !st.IsDir() {
		patterns = append(patterns, "./astisub")
	}
	pkgs, err := packages.Load(cfg, patterns...)
	if err != nil {
		return nil, err
	}
	var errs []string
	packages.Visit(pkgs, nil, func(p *packages.Package) {
		for _, e := range p.Errors {
			errs = append(errs, e.Error())
		}
	})
	if len(errs) > 0 {
		return nil, fmt.Errorf("load errors:\n%s", strings.Join(errs, "\n"))
	}
	prog, spkgs := ssautil.AllPackages(pkgs, ssa.InstantiateGenerics)
	prog.Build()
	p := &Program{Prog: prog, Pkgs: pkgs, ByPath: map[string]*ssa.Package{}, RepoDir: repo, Overlay: overlay}
	for _, sp := range prog.AllPackages() {
		p.ByPath[sp.Pkg.Path()] = sp
	}
	if len(spkgs) == 0 || spkgs[0] == nil {
		return nil, fmt.Errorf("no ssa package")
	}
	for i, pk := range pkgs {
		if spkgs[i] == nil {
			continue
		}
		switch pk.PkgPath {
		case "github.com/asticode/go-astisub":
			p.Main = spkgs[i]
		case "github.com/asticode/go-astisub/astisub":
			p.CLI = spkgs[i]
		}
	}
	if p.Main == nil {
		p.Main = spkgs[0]
	}
	p.Sizes = types.SizesFor("gc", "amd64")
	return p, nil
}
