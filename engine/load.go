package main

import (
	"fmt"
	"go/types"
	"os"
	"path/filepath"
	"sort"
	"strings"

	"golang.org/x/tools/go/packages"
	"golang.org/x/tools/go/ssa"
	"golang.org/x/tools/go/ssa/ssautil"
)

type Program struct {
	Prog    *ssa.Program
	Pkgs    []*packages.Package
	Main    *ssa.Package // astisub
	CLI     *ssa.Package // the astisub command (package main in /repo/astisub), nil if absent
	ByPath  map[string]*ssa.Package
	Sizes   types.Sizes
	RepoDir string
	Overlay map[string][]byte
}

// loadProgram loads /repo's current working tree plus the harness overlay and builds SSA.
// harnessFiles is the set of harness files in use (all of them, unless some had to be left out: see loadProgramFor).
var harnessFiles []string

// loadProgramFor loads the tree with every harness file; if the tree under test no longer compiles against some
// harness file (an internal helper it calls was renamed or removed), the files the compiler complains about are
// left out - never the primitives nor the file of the property being checked - so that one stale harness does not
// take the checks of the other properties down with it.
func loadProgramFor(repo, harnessDir, prop string) (*Program, error) {
	all, _ := filepath.Glob(filepath.Join(harnessDir, "zz_verif_*.go"))
	sort.Strings(all)
	harnessFiles = all
	keep := map[string]bool{"zz_verif_prims.go": true, "zz_verif_" + strings.ToLower(prop) + ".go": true}
	for round := 0; round < 6; round++ {
		p, err := loadProgram(repo, harnessDir)
		if err == nil {
			if round > 0 {
				fmt.Printf("  NOTE: %d harness file(s) of other properties no longer compile against this tree and were left out\n", len(all)-len(harnessFiles))
			}
			return p, nil
		}
		dropped := false
		var next []string
		for _, f := range harnessFiles {
			base := filepath.Base(f)
			if !keep[base] && strings.Contains(err.Error(), base+":") {
				dropped = true
				continue
			}
			next = append(next, f)
		}
		if !dropped {
			return nil, err
		}
		harnessFiles = next
	}
	return nil, fmt.Errorf("harness files do not compile against this tree")
}

func loadProgram(repo string, harnessDir string) (*Program, error) {
	overlay := map[string][]byte{}
	files := harnessFiles
	if files == nil {
		files, _ = filepath.Glob(filepath.Join(harnessDir, "zz_verif_*.go"))
		sort.Strings(files)
	}
	for _, f := range files {
		if strings.HasSuffix(f, "_test.go") {
			continue
		}
		b, err := os.ReadFile(f)
		if err != nil {
			return nil, err
		}
		overlay[filepath.Join(repo, filepath.Base(f))] = b
	}
	cfg := &packages.Config{
		Mode:    packages.LoadAllSyntax,
		Dir:     repo,
		Overlay: overlay,
		Env:     append(os.Environ(), "GOFLAGS=-mod=mod", "GOPROXY=off", "GOSUMDB=off", "GOTOOLCHAIN=local"),
	}
	patterns := []string{"."}
	if st, err := os.Stat(filepath.Join(repo, "astisub", "main.go")); err == nil && !st.IsDir() {
		patterns = append(patterns, "./astisub")
	}
	pkgs, err := packages.Load(cfg, patterns...)
	if err != nil {
		return nil, err
	}
	var errs []string
	packages.Visit(pkgs, nil, func(p *packages.Package) {
		for _, e := range p.Errors {
			errs = append(errs, e.Error())
		}
	})
	if len(errs) > 0 {
		return nil, fmt.Errorf("load errors:\n%s", strings.Join(errs, "\n"))
	}
	prog, spkgs := ssautil.AllPackages(pkgs, ssa.InstantiateGenerics)
	prog.Build()
	p := &Program{Prog: prog, Pkgs: pkgs, ByPath: map[string]*ssa.Package{}, RepoDir: repo, Overlay: overlay}
	for _, sp := range prog.AllPackages() {
		p.ByPath[sp.Pkg.Path()] = sp
	}
	if len(spkgs) == 0 || spkgs[0] == nil {
		return nil, fmt.Errorf("no ssa package")
	}
	for i, pk := range pkgs {
		if spkgs[i] == nil {
			continue
		}
		switch pk.PkgPath {
		case "github.com/asticode/go-astisub":
			p.Main = spkgs[i]
		case "github.com/asticode/go-astisub/astisub":
			p.CLI = spkgs[i]
		}
	}
	if p.Main == nil {
		p.Main = spkgs[0]
	}
	p.Sizes = types.SizesFor("gc", "amd64")
	return p, nil
}
