package main

import (
	"fmt"
	"go/token"
	"go/types"
	"math"
	"math/big"
	"reflect"
	"unicode/utf8"
)

const two53 = int64(1) << 53

func realLit(f float64) string {
	if math.IsNaN(f) || math.IsInf(f, 0) {
		panic(unsupported("NaN/Inf in real encoding"))
	}
	r := new(big.Rat).SetFloat64(f)
	neg := r.Sign() < 0
	if neg {
		r.Neg(r)
	}
	var s string
	if r.IsInt() {
		s = r.Num().String() + ".0"
	} else {
		s = "(/ " + r.Num().String() + ".0 " + r.Denom().String() + ".0)"
	}
	if neg {
		s = "(- " + s + ")"
	}
	return s
}

func fpLit(f float64) string {
	b := math.Float64bits(f)
	return fmt.Sprintf("(fp #b%01b #b%011b #x%013x)", b>>63, (b>>52)&0x7ff, b&((1<<52)-1))
}

func (e *Exec) floatTerm(x Float) *Term {
	if x.S != nil {
		return x.S
	}
	if e.mode == ModeINT {
		t := &Term{Name: realLit(x.C), Sort: Sort{K: SReal}, RLo: x.C, RHi: x.C, RBnd: true}
		if x.C == math.Trunc(x.C) && math.Abs(x.C) < float64(two53) {
			t.Int = true
			it := e.intTerm(Int{W: 64, Sg: true, C: int64(x.C)})
			t.IntT = it
		}
		return t
	}
	return &Term{Name: fpLit(x.C), Sort: Sort{K: SFP, W: 64}, RLo: x.C, RHi: x.C, RBnd: !math.IsNaN(x.C) && !math.IsInf(x.C, 0)}
}

// fpBounds propagates sound real bounds through an IEEE operation (used for narrowing in BV mode).
func fpBounds(op token.Token, tx, ty *Term) (float64, float64, bool) {
	if !tx.RBnd || !ty.RBnd {
		return 0, 0, false
	}
	var c []float64
	switch op {
	case token.ADD:
		c = []float64{tx.RLo + ty.RLo, tx.RHi + ty.RHi}
	case token.SUB:
		c = []float64{tx.RLo - ty.RHi, tx.RHi - ty.RLo}
	case token.MUL:
		c = []float64{tx.RLo * ty.RLo, tx.RLo * ty.RHi, tx.RHi * ty.RLo, tx.RHi * ty.RHi}
	case token.QUO:
		if ty.RLo > 0 || ty.RHi < 0 {
			c = []float64{tx.RLo / ty.RLo, tx.RLo / ty.RHi, tx.RHi / ty.RLo, tx.RHi / ty.RHi}
		}
	}
	if c == nil {
		return 0, 0, false
	}
	lo, hi := c[0], c[0]
	for _, v := range c {
		lo, hi = math.Min(lo, v), math.Max(hi, v)
	}
	if math.IsNaN(lo) || math.IsInf(lo, 0) || math.IsNaN(hi) || math.IsInf(hi, 0) {
		return 0, 0, false
	}
	lo2, hi2 := lo-math.Abs(lo)*1e-15-1e-300, hi+math.Abs(hi)*1e-15+1e-300
	if lo >= 0 && lo2 < 0 { // a non-negative exact result never rounds below zero
		lo2 = 0
	}
	if hi <= 0 && hi2 > 0 {
		hi2 = 0
	}
	return lo2, hi2, true
}

// round introduces a fresh real y standing for the float64 nearest to the exact real v
// (monotone-exact relaxation: |y-v| <= 2^-53 |v| and floor(v) <= y <= floor(v)+1).
func (e *Exec) round(v *Term) *Term { return e.roundOpt(v, true) }

// roundOpt: withFloor=false drops the floor/ceiling bound (still a sound over-approximation of rounding); used for
// products with a non-integer constant where the bound only burdens the solver.
func (e *Exec) roundOpt(v *Term, withFloor bool) *Term {
	y := e.fresh("fl", Sort{K: SReal})
	e.fltFresh++
	av := e.def(Sort{K: SReal}, "(ite (>= "+v.Name+" 0.0) "+v.Name+" (- "+v.Name+"))")
	eps := "(/ 1.0 9007199254740992.0)"
	e.sol.Send("(assert (<= (- " + y.Name + " " + v.Name + ") (* " + eps + " " + av.Name + ")))")
	e.sol.Send("(assert (<= (- " + v.Name + " " + y.Name + ") (* " + eps + " " + av.Name + ")))")
	if withFloor {
		fi := e.floorReal(v)
		fl := &Term{Name: "(to_real " + fi.Name + ")", Sort: Sort{K: SReal}}
		e.sol.Send("(assert (<= " + fl.Name + " " + y.Name + "))")
		e.sol.Send("(assert (<= " + y.Name + " (+ " + fl.Name + " 1.0)))")
	}
	// rounding is monotone: relate this rounding to the earlier ones on the path
	for _, p := range e.roundings {
		if e.nonlinear > 0 {
			break
		}
		e.sol.Send("(assert (=> (<= " + p[0] + " " + v.Name + ") (<= " + p[1] + " " + y.Name + ")))")
		e.sol.Send("(assert (=> (<= " + v.Name + " " + p[0] + ") (<= " + y.Name + " " + p[1] + ")))")
	}
	if len(e.roundings) < 12 {
		e.roundings = append(e.roundings, [2]string{v.Name, y.Name})
	}
	if v.RBnd {
		y.RLo, y.RHi, y.RBnd = math.Floor(v.RLo), math.Floor(v.RHi)+1, true
		// tighter: relative error
		lo2 := v.RLo - math.Abs(v.RLo)*1e-15
		hi2 := v.RHi + math.Abs(v.RHi)*1e-15
		if lo2 > y.RLo {
			y.RLo = lo2
		}
		if hi2 < y.RHi {
			y.RHi = hi2
		}
	}
	return y
}

func (e *Exec) intToFloat(x Int, t types.Type) Value {
	if t.Underlying().(*types.Basic).Kind() == types.Float32 {
		if x.S != nil {
			panic(unsupported("symbolic int -> float32"))
		}
		if x.Sg || x.C >= 0 {
			return Float{W: 32, C: float64(float32(x.C))}
		}
		return Float{W: 32, C: float64(float32(uint64(x.C)))}
	}
	if x.S == nil {
		if x.Sg || x.C >= 0 {
			return Float{W: 64, C: float64(x.C)}
		}
		return Float{W: 64, C: float64(uint64(x.C))}
	}
	if e.mode == ModeINT {
		lo, hi, ok := e.ival(x)
		ex := &Term{Name: "(to_real " + x.S.Name + ")", Sort: Sort{K: SReal}}
		if ok {
			ex.RLo, ex.RHi, ex.RBnd = float64(lo), float64(hi), true
			if lo < -two53 || hi > two53 {
				ex.RLo, ex.RHi = ex.RLo*(1+1e-15)-1, ex.RHi*(1+1e-15)+1
			}
		}
		if ok && lo > -two53 && hi < two53 {
			ex.Int = true
			ex.IntT = x.S
			return Float{W: 64, S: ex}
		}
		return Float{W: 64, S: e.round(ex)}
	}
	op := "to_fp_unsigned"
	if x.Sg {
		op = "to_fp"
	}
	src := x.S.Name
	if lo, hi, ok := e.ival(x); ok && x.W == 64 && lo >= 0 && hi < 1<<31 {
		// narrow: the value fits 32 bits, convert from the low word (non-negative, so signed conversion is right)
		src = "((_ extract 31 0) " + src + ")"
		op = "to_fp"
	}
	ft := e.def(Sort{K: SFP, W: 64}, fmt.Sprintf("((_ %s 11 53) RNE %s)", op, src))
	if lo, hi, ok := e.ival(x); ok {
		ft.RLo, ft.RHi, ft.RBnd = float64(lo)*(1-1e-15)-1, float64(hi)*(1+1e-15)+1, true
		if lo > -two53 && hi < two53 {
			ft.RLo, ft.RHi = float64(lo), float64(hi)
		}
	}
	return Float{W: 64, S: ft}
}

func (e *Exec) floatToInt(x Float, w uint8, sg bool) Value {
	if x.S == nil {
		if sg {
			return normInt(Int{W: w, Sg: sg, C: int64(x.C)})
		}
		return normInt(Int{W: w, Sg: sg, C: int64(uint64(x.C))})
	}
	if e.mode == ModeINT {
		if x.S.Int && x.S.IntT != nil {
			it := x.S.IntT
			return e.wrapINT(it, w, sg, it.Lo, it.Hi, it.Bnd)
		}
		if x.S.RBnd && x.S.RLo >= 0 && x.S.RHi < 1e18 {
			t := e.floorReal(x.S)
			return e.wrapINT(t, w, sg, t.Lo, t.Hi, t.Bnd)
		}
		t := e.def(Sort{K: SInt}, fmt.Sprintf("(ite (>= %s 0.0) (to_int %s) (- (to_int (- %s))))", x.S.Name, x.S.Name, x.S.Name))
		if x.S.RBnd && math.Abs(x.S.RLo) < 1e18 && math.Abs(x.S.RHi) < 1e18 {
			return e.wrapINT(t, w, sg, int64(math.Trunc(x.S.RLo))-1, int64(math.Trunc(x.S.RHi))+1, true)
		}
		return e.wrapINT(t, w, sg, 0, 0, false)
	}
	op := "fp.to_ubv"
	if sg {
		op = "fp.to_sbv"
	}
	if w == 64 && x.S.RBnd && x.S.RLo >= 0 && x.S.RHi < float64(int64(1)<<46) {
		// narrow: a non-negative result below 2^46 is converted on 48 bits and zero-extended
		t48 := e.def(Sort{K: SBV, W: 64}, fmt.Sprintf("((_ zero_extend 16) ((_ fp.to_ubv 48) RTZ %s))", x.S.Name))
		return e.mkSym(t48, w, sg, int64(math.Trunc(x.S.RLo)), int64(math.Trunc(x.S.RHi)), true)
	}
	t := e.def(Sort{K: SBV, W: int(w)}, fmt.Sprintf("((_ %s %d) RTZ %s)", op, w, x.S.Name))
	if x.S.RBnd && math.Abs(x.S.RLo) < 1e18 && math.Abs(x.S.RHi) < 1e18 {
		lo, hi := int64(math.Trunc(x.S.RLo)), int64(math.Trunc(x.S.RHi))
		if inRange(lo, hi, w, sg) {
			return e.mkSym(t, w, sg, lo, hi, true)
		}
	}
	return e.mkSym(t, w, sg, 0, 0, false)
}

func (e *Exec) floatNeg(x Float) Value {
	if x.S == nil {
		return Float{W: x.W, C: -x.C}
	}
	if e.mode == ModeINT {
		t := &Term{Name: "(- " + x.S.Name + ")", Sort: Sort{K: SReal}}
		return Float{W: x.W, S: t}
	}
	return Float{W: x.W, S: e.def(x.S.Sort, "(fp.neg "+x.S.Name+")")}
}

func (e *Exec) floatBin(op token.Token, x, y Float) Value {
	switch op {
	case token.EQL, token.NEQ, token.LSS, token.LEQ, token.GTR, token.GEQ:
		return e.floatCmp(op, x, y)
	}
	if x.S == nil && y.S == nil {
		var r float64
		switch op {
		case token.ADD:
			r = x.C + y.C
		case token.SUB:
			r = x.C - y.C
		case token.MUL:
			r = x.C * y.C
		case token.QUO:
			r = x.C / y.C
		default:
			panic(unsupported("float op " + op.String()))
		}
		if x.W == 32 {
			r = float64(float32(r))
		}
		return Float{W: x.W, C: r}
	}
	if x.W == 32 {
		panic(unsupported("symbolic float32 arithmetic"))
	}
	tx, ty := e.floatTerm(x), e.floatTerm(y)
	if e.mode == ModeINT {
		// exact identities
		if y.S == nil && y.C == 1 && (op == token.MUL || op == token.QUO) {
			return x
		}
		if x.S == nil && x.C == 1 && op == token.MUL {
			return y
		}
		if y.S == nil && y.C == 0 && (op == token.ADD || op == token.SUB) {
			return x
		}
		var sop string
		switch op {
		case token.ADD:
			sop = "+"
		case token.SUB:
			sop = "-"
		case token.MUL:
			sop = "*"
			if x.S != nil && y.S != nil {
				e.nonlinear++
			}
		case token.QUO:
			sop = "/"
			if y.S != nil {
				e.nonlinear++
			}
		default:
			panic(unsupported("float op " + op.String()))
		}
		ex := e.def(Sort{K: SReal}, "("+sop+" "+tx.Name+" "+ty.Name+")")
		if tx.RBnd && ty.RBnd {
			var c []float64
			switch op {
			case token.ADD:
				c = []float64{tx.RLo + ty.RLo, tx.RHi + ty.RHi}
			case token.SUB:
				c = []float64{tx.RLo - ty.RHi, tx.RHi - ty.RLo}
			case token.MUL:
				c = []float64{tx.RLo * ty.RLo, tx.RLo * ty.RHi, tx.RHi * ty.RLo, tx.RHi * ty.RHi}
			case token.QUO:
				if ty.RLo > 0 || ty.RHi < 0 {
					c = []float64{tx.RLo / ty.RLo, tx.RLo / ty.RHi, tx.RHi / ty.RLo, tx.RHi / ty.RHi}
				}
			}
			if c != nil {
				lo, hi := c[0], c[0]
				for _, v := range c {
					lo, hi = math.Min(lo, v), math.Max(hi, v)
				}
				if !math.IsNaN(lo) && !math.IsInf(lo, 0) && !math.IsNaN(hi) && !math.IsInf(hi, 0) {
					// outward slack for the engine's own rounding
					ex.RLo, ex.RHi, ex.RBnd = lo-math.Abs(lo)*1e-15, hi+math.Abs(hi)*1e-15, true
				}
			}
		}
		// integer-valued operands with a small integer result are exact
		if tx.Int && ty.Int && tx.IntT != nil && ty.IntT != nil && op != token.QUO {
			a := Int{W: 64, Sg: true, S: tx.IntT}
			b := Int{W: 64, Sg: true, S: ty.IntT}
			if tx.IntT.Bnd && tx.IntT.Lo == tx.IntT.Hi {
				a = Int{W: 64, Sg: true, C: tx.IntT.Lo}
			}
			if ty.IntT.Bnd && ty.IntT.Lo == ty.IntT.Hi {
				b = Int{W: 64, Sg: true, C: ty.IntT.Lo}
			}
			la, ha, oka := e.ival(a)
			lb, hb, okb := e.ival(b)
			// the exact result of two integer-valued operands is an integer; below 2^53 in magnitude it is representable,
			// so the IEEE result is that integer (symbolic x symbolic products stay within 2^26 to keep the query linear)
			small := oka && okb && la > -(1<<26) && ha < 1<<26 && lb > -(1<<26) && hb < 1<<26
			if !small && oka && okb && (a.S == nil || b.S == nil || op != token.MUL) {
				ma, mb := math.Max(math.Abs(float64(la)), math.Abs(float64(ha))), math.Max(math.Abs(float64(lb)), math.Abs(float64(hb)))
				if op == token.MUL {
					small = ma*mb < float64(two53)/2
				} else {
					small = ma+mb < float64(two53)/2
				}
			}
			if small {
				r := e.intBin(op, a, b)
				if r.S == nil {
					return Float{W: 64, C: float64(r.C)}
				}
				ex.Int, ex.IntT = true, r.S
				return Float{W: 64, S: ex}
			}
		}
		withFloor := true
		if op == token.MUL {
			// product with a non-integer constant: no integrality structure to preserve
			if x.S == nil && x.C != math.Trunc(x.C) || y.S == nil && y.C != math.Trunc(y.C) {
				withFloor = false
			}
		}
		res := e.roundOpt(ex, withFloor)
		if op == token.ADD {
			if tx.Int && tx.IntT != nil && ty.RBnd && ty.RLo >= 0 && ty.RHi < 1.0000001 {
				res.FloorCand = tx.IntT
			} else if ty.Int && ty.IntT != nil && tx.RBnd && tx.RLo >= 0 && tx.RHi < 1.0000001 {
				res.FloorCand = ty.IntT
			}
		}
		return Float{W: 64, S: res}
	}
	var sop string
	switch op {
	case token.ADD:
		sop = "fp.add"
	case token.SUB:
		sop = "fp.sub"
	case token.MUL:
		sop = "fp.mul"
	case token.QUO:
		sop = "fp.div"
	default:
		panic(unsupported("float op " + op.String()))
	}
	rt := e.def(Sort{K: SFP, W: 64}, "("+sop+" RNE "+tx.Name+" "+ty.Name+")")
	rt.RLo, rt.RHi, rt.RBnd = fpBounds(op, tx, ty)
	return Float{W: 64, S: rt}
}

func (e *Exec) floatCmp(op token.Token, x, y Float) Bool {
	if x.S == nil && y.S == nil {
		switch op {
		case token.EQL:
			return Bool{C: x.C == y.C}
		case token.NEQ:
			return Bool{C: x.C != y.C}
		case token.LSS:
			return Bool{C: x.C < y.C}
		case token.LEQ:
			return Bool{C: x.C <= y.C}
		case token.GTR:
			return Bool{C: x.C > y.C}
		case token.GEQ:
			return Bool{C: x.C >= y.C}
		}
	}
	tx, ty := e.floatTerm(x), e.floatTerm(y)
	var sop string
	neg := false
	if e.mode == ModeINT && (op == token.LSS || op == token.GEQ) && x.S != nil && x.S.FloorCand != nil && y.S == nil &&
		y.C == math.Trunc(y.C) && math.Abs(y.C) < 1e15 {
		// x < c  <=>  floor(x) < c  and  x >= c  <=>  floor(x) >= c  for an integer constant c; when the solver confirms
		// that floor(x) is x's integer addend (the floor lemma, cached) the comparison is an integer one
		if fx := e.floorReal(x.S); fx == x.S.FloorCand {
			return e.intCmp(op, Int{W: 64, Sg: true, S: fx}, Int{W: 64, Sg: true, C: int64(y.C)})
		}
	}
	if e.mode == ModeINT {
		switch op {
		case token.EQL:
			sop = "="
		case token.NEQ:
			sop, neg = "=", true
		case token.LSS:
			sop = "<"
		case token.LEQ:
			sop = "<="
		case token.GTR:
			sop = ">"
		case token.GEQ:
			sop = ">="
		}
	} else {
		switch op {
		case token.EQL:
			sop = "fp.eq"
		case token.NEQ:
			sop, neg = "fp.eq", true
		case token.LSS:
			sop = "fp.lt"
		case token.LEQ:
			sop = "fp.leq"
		case token.GTR:
			sop = "fp.gt"
		case token.GEQ:
			sop = "fp.geq"
		}
	}
	expr := "(" + sop + " " + tx.Name + " " + ty.Name + ")"
	if neg {
		expr = "(not " + expr + ")"
	}
	return Bool{S: e.def(Sort{K: SBool}, expr)}
}

func (e *Exec) floatFloor(x Float) Float {
	if x.S == nil {
		return Float{W: x.W, C: math.Floor(x.C)}
	}
	if e.mode == ModeINT {
		if x.S.Int {
			return x
		}
		it := e.floorReal(x.S)
		t := &Term{Name: "(to_real " + it.Name + ")", Sort: Sort{K: SReal}, Int: true, IntT: it}
		if it.Bnd {
			t.RLo, t.RHi, t.RBnd = float64(it.Lo), float64(it.Hi), true
		}
		return Float{W: 64, S: t}
	}
	rt := e.def(Sort{K: SFP, W: 64}, "(fp.roundToIntegral RTN "+x.S.Name+")")
	rt.Int = true
	if x.S.RBnd {
		rt.RLo, rt.RHi, rt.RBnd = math.Floor(x.S.RLo), math.Floor(x.S.RHi), true
	}
	return Float{W: 64, S: rt}
}

// ---------- misc native helpers ----------

func decodeRuneBytes(b []byte) (rune, int) {
	return utf8.DecodeRune(b)
}

var growCache = map[[5]int]int{}

// growCap asks the real runtime what capacity append would give.
func growCap(elemSize int, ptr bool, oldLen, oldCap, add int) int {
	p := 0
	if ptr {
		p = 1
	}
	key := [5]int{elemSize, p, oldLen, oldCap, add}
	growMu.Lock()
	defer growMu.Unlock()
	if c, ok := growCache[key]; ok {
		return c
	}
	var et reflect.Type
	if elemSize == 0 {
		et = reflect.TypeOf(struct{}{})
	} else if ptr && elemSize%8 == 0 {
		et = reflect.ArrayOf(elemSize/8, reflect.TypeOf((*byte)(nil)))
	} else {
		et = reflect.ArrayOf(elemSize, reflect.TypeOf(byte(0)))
	}
	s := reflect.MakeSlice(reflect.SliceOf(et), oldLen, oldCap)
	a := reflect.MakeSlice(reflect.SliceOf(et), add, add)
	r := reflect.AppendSlice(s, a)
	growCache[key] = r.Cap()
	return r.Cap()
}
