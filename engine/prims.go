package main

import (
	"strings"
	"fmt"
	"os"
	"go/token"
	"go/types"
)

// prims are the harness primitives (Appendix A of DESIGN.md), intercepted by name in package astisub.
var prims map[string]func(e *Exec, args []Value) Value

func init() {
	prims = map[string]func(e *Exec, args []Value) Value{
		"nondetInt64":  primNondetInt,
		"nondetInt":    primNondetInt,
		"nondetBool":   primNondetBool,
		"nondetByte":   primNondetByte,
		"nondetByteIn": primNondetByteIn,
		"choose":       primChoose,
		"vassume":      primAssume,
		"vassert":      primAssert,
		"vreach":       primReach,
		"vbound":       primBound,
		"vmode":        primMode,
		"vand":         func(e *Exec, a []Value) Value { return e.and(a[0].(Bool), a[1].(Bool)) },
		"vor":          func(e *Exec, a []Value) Value { return e.or(a[0].(Bool), a[1].(Bool)) },
		"vnot":         func(e *Exec, a []Value) Value { return e.not(a[0].(Bool)) },
		"vimplies":     func(e *Exec, a []Value) Value { return e.or(e.not(a[0].(Bool)), a[1].(Bool)) },
		"vmaporder":    func(e *Exec, a []Value) Value { e.mapOrder = a[0].(Bool).C; return nil },
		"vnote":        func(e *Exec, a []Value) Value { e.notes = append(e.notes, a[0].(Str).Conc()); return nil },
		"vconcrete":    func(e *Exec, a []Value) Value { x := a[0].(Int); return normInt(Int{W: x.W, Sg: x.Sg, C: e.concretize(x)}) },
		"vfreeze":      primFreeze,
		"vengineOnly":  func(e *Exec, a []Value) Value { return nil },
		"vtmpdir":      func(e *Exec, a []Value) Value { return cs("dir.d") },
		"vtouch":       func(e *Exec, a []Value) Value { return nil },
		"vnative":      func(e *Exec, a []Value) Value { return Bool{C: false} },
		"vcliRun":      primCLIRun,
		"veqstr":       func(e *Exec, a []Value) Value { return e.strEq(a[0].(Str), a[1].(Str)) },
		"vsymstr":      primSymStr,
		"vscannerSplit": primScannerSplit,
		"vsolver":       primSolver,
		"vtsBytes":      func(e *Exec, a []Value) Value { return Slice{B: []Value{}, N: 0} },
		"vpin":          primPin,
		"vpinInt":       primPinInt,
		"vobserve":      primObserve,
		"vreadfile":     primReadFile,
		"vprint": func(e *Exec, a []Value) Value {
			fmt.Fprintf(os.Stderr, "VPRINT %s = %s\n", a[0].(Str).Conc(), e.describe(a[1].(Iface).V))
			return nil
		},
		"vdeepequal":    primDeepEqual,
	}
}

func (e *Exec) newNondet(kind string, w uint8, sg bool, lo, hi int64) Int {
	if lo > hi {
		panic(pathStop{kind: "infeasible", msg: "empty nondet range"})
	}
	if lo == hi {
		e.vec = append(e.vec, VecEntry{Kind: kind, Val: lo, W: w, Sg: sg})
		return normInt(Int{W: w, Sg: sg, C: lo})
	}
	t := e.fresh("n", e.intSort(w))
	x := Int{W: w, Sg: sg, S: t}
	tl, th, ok := typeRange(w, sg)
	full := ok && lo == tl && hi == th
	t.Lo, t.Hi, t.Bnd = lo, hi, true
	if e.mode == ModeINT || !full {
		// assert the range
		raw := Int{W: w, Sg: sg, S: &Term{Name: t.Name, Sort: t.Sort}}
		c1 := e.intCmp(token.GEQ, raw, normInt(Int{W: w, Sg: sg, C: lo}))
		c2 := e.intCmp(token.LEQ, raw, normInt(Int{W: w, Sg: sg, C: hi}))
		// range constraints of a fresh constant are always satisfiable: they do not make the path condition "dirty"
		d := e.pcDirty
		e.assume(c1)
		e.assume(c2)
		e.pcDirty = d
	}
	e.vec = append(e.vec, VecEntry{Kind: kind, Name: t.Name, W: w, Sg: sg})
	return x
}

func primNondetInt(e *Exec, a []Value) Value {
	lo, hi := a[0].(Int), a[1].(Int)
	if lo.S != nil || hi.S != nil {
		panic(unsupported("nondetInt with symbolic bounds"))
	}
	return e.newNondet("int", 64, true, lo.C, hi.C)
}

func primNondetBool(e *Exec, a []Value) Value {
	t := e.fresh("b", Sort{K: SBool})
	e.vec = append(e.vec, VecEntry{Kind: "bool", Name: t.Name})
	return Bool{S: t}
}

func primNondetByte(e *Exec, a []Value) Value {
	return e.newNondet("byte", 8, false, 0, 255)
}

// nondetByteIn(set): a symbolic byte constrained to be one of the bytes of the (concrete) set string.
func primNondetByteIn(e *Exec, a []Value) Value {
	set := a[0].(Str).Conc()
	if len(set) == 0 {
		panic(pathStop{kind: "infeasible", msg: "empty byte set"})
	}
	var present [256]bool
	lo, hi := 255, 0
	for i := 0; i < len(set); i++ {
		present[set[i]] = true
		if int(set[i]) < lo {
			lo = int(set[i])
		}
		if int(set[i]) > hi {
			hi = int(set[i])
		}
	}
	x := e.newNondet("byte", 8, false, int64(lo), int64(hi))
	if x.S == nil {
		return x
	}
	// exclude the gaps
	ok := Bool{C: false}
	i := lo
	for i <= hi {
		if !present[i] {
			i++
			continue
		}
		j := i
		for j+1 <= hi && present[j+1] {
			j++
		}
		var c Bool
		if i == j {
			c = e.intCmp(token.EQL, x, Int{W: 8, C: int64(i)})
		} else {
			c = e.and(e.intCmp(token.GEQ, x, Int{W: 8, C: int64(i)}), e.intCmp(token.LEQ, x, Int{W: 8, C: int64(j)}))
		}
		ok = e.or(ok, c)
		i = j + 1
	}
	e.assume(ok)
	return x
}

// vsymstr(n, set): a string of n symbolic bytes over set.
func primSymStr(e *Exec, a []Value) Value {
	n := int(a[0].(Int).C)
	bs := make([]Int, n)
	for i := range bs {
		bs[i] = primNondetByteIn(e, []Value{a[1]}).(Int)
	}
	return strFromBytes(bs)
}

func primChoose(e *Exec, a []Value) Value {
	n := a[0].(Int)
	if n.S != nil {
		panic(unsupported("choose with symbolic n"))
	}
	v := e.choose(int(n.C))
	e.vec = append(e.vec, VecEntry{Kind: "choose", Val: int64(v)})
	return Int{W: 64, Sg: true, C: int64(v)}
}

func primAssume(e *Exec, a []Value) Value {
	b := a[0].(Bool)
	if b.S == nil {
		if !b.C {
			panic(pathStop{kind: "infeasible"})
		}
		return nil
	}
	e.assertT(b.S)
	if r := e.sol.Check(); r == "unsat" {
		panic(pathStop{kind: "infeasible"})
	} else if r == "unknown" {
		e.unknowns++
	}
	return nil
}

func primAssert(e *Exec, a []Value) Value {
	b := a[0].(Bool)
	label := a[1].(Str).Conc()
	e.asserts[label]++
	e.sawAssert = true
	if b.S != nil {
		e.symAssert = true
	}
	e.check(b, "assert", label, "")
	return nil
}

func primReach(e *Exec, a []Value) Value {
	e.reached[a[0].(Str).Conc()] = true
	return nil
}

func primBound(e *Exec, a []Value) Value {
	name := a[0].(Str).Conc()
	v := a[1].(Int)
	if e.tier == "thorough" {
		v = a[2].(Int)
	}
	e.bounds[name] = int(v.C)
	return v
}

func primMode(e *Exec, a []Value) Value {
	m := a[0].(Str).Conc()
	if e.nterm > 0 {
		panic(fmt.Sprintf("vmode(%q) after symbolic terms were created", m))
	}
	switch m {
	case "int", "INT":
		e.mode = ModeINT
		if e.solINT != nil && e.sol != e.solINT {
			// integer/real queries go to the solver that decides them (z3 5.x; see DESIGN.md section 4)
			e.sol.Pop()
			e.sol = e.solINT
			e.sol.Push()
		}
	case "bv", "BV":
		e.mode = ModeBV
	default:
		panic("vmode: unknown mode " + m)
	}
	return nil
}

// vfreeze marks every object reachable from package-level variables of astisub (except Now) as frozen:
// any later store into one of them is reported as a violation (C20).
func primFreeze(e *Exec, a []Value) Value {
	e.frozen = map[*Value]bool{}
	seen := map[interface{}]bool{}
	var walk func(v Value)
	var walkCell func(p *Value)
	walkCell = func(p *Value) {
		if p == nil || e.frozen[p] {
			return
		}
		e.frozen[p] = true
		walk(*p)
	}
	walk = func(v Value) {
		switch v := v.(type) {
		case *Value:
			walkCell(v)
		case Struct:
			for i := range v {
				e.frozen[&v[i]] = true
				walk(v[i])
			}
		case Array:
			for i := range v {
				e.frozen[&v[i]] = true
				walk(v[i])
			}
		case Slice:
			for i := range v.B {
				e.frozen[&v.B[i]] = true
				walk(v.B[i])
			}
		case Iface:
			walk(v.V)
		case *Map:
			if v == nil || seen[v] {
				return
			}
			seen[v] = true
			e.frozenMaps[v] = true
			for i := range v.Keys {
				if v.Keys[i] != nil {
					walk(v.Keys[i])
					walk(v.Vals[i])
				}
			}
		case *Closure:
			if v == nil || seen[v] {
				return
			}
			seen[v] = true
			for _, b := range v.Env {
				walk(b)
			}
		}
	}
	for g, p := range e.globals {
		if g.Pkg != e.P.Main {
			continue
		}
		if g.Name() == "Now" {
			continue
		}
		// the harness's own package-level variables (provider state in zz_verif_*.go) are not library state
		if strings.Contains(e.P.Prog.Fset.Position(g.Pos()).Filename, "zz_verif_") {
			continue
		}
		walkCell(p)
	}
	e.checkFrz = true
	return nil
}

// vscannerSplit(sc): the unexported field "split" of a *bufio.Scanner.
func primScannerSplit(e *Exec, a []Value) Value {
	p := e.derefPtr(a[0])
	st := (*p).(Struct)
	named := e.P.ByPath["bufio"].Type("Scanner").Type().Underlying().(*types.Struct)
	for i := 0; i < named.NumFields(); i++ {
		if named.Field(i).Name() == "split" {
			return st[i]
		}
	}
	panic("vscannerSplit: field not found")
}

// vdeepequal(a, b): structural equality following pointers, slices and maps (cycles handled by a visited set).
func primDeepEqual(e *Exec, a []Value) Value {
	type pair struct{ x, y interface{} }
	seen := map[pair]bool{}
	var eq func(x, y Value) Bool
	eq = func(x, y Value) Bool {
		switch xv := x.(type) {
		case *Value:
			yv, ok := y.(*Value)
			if !ok {
				return Bool{C: false}
			}
			if xv == nil || yv == nil {
				return Bool{C: xv == yv}
			}
			if xv == yv || seen[pair{xv, yv}] {
				return Bool{C: true}
			}
			seen[pair{xv, yv}] = true
			return eq(*xv, *yv)
		case Struct:
			yv, ok := y.(Struct)
			if !ok || len(xv) != len(yv) {
				return Bool{C: false}
			}
			r := Bool{C: true}
			for i := range xv {
				r = e.and(r, eq(xv[i], yv[i]))
				if r.S == nil && !r.C {
					return r
				}
			}
			return r
		case Array:
			yv, ok := y.(Array)
			if !ok || len(xv) != len(yv) {
				return Bool{C: false}
			}
			r := Bool{C: true}
			for i := range xv {
				r = e.and(r, eq(xv[i], yv[i]))
			}
			return r
		case Slice:
			yv, ok := y.(Slice)
			if !ok || xv.Nil != yv.Nil || xv.N != yv.N {
				return Bool{C: false}
			}
			r := Bool{C: true}
			for i := 0; i < xv.N; i++ {
				r = e.and(r, eq(xv.B[i], yv.B[i]))
				if r.S == nil && !r.C {
					return r
				}
			}
			return r
		case *Map:
			yv, ok := y.(*Map)
			if !ok {
				return Bool{C: false}
			}
			if xv == nil || yv == nil {
				return Bool{C: xv == yv}
			}
			if xv.Len() != yv.Len() {
				return Bool{C: false}
			}
			r := Bool{C: true}
			for i, k := range xv.Keys {
				if k == nil {
					continue
				}
				j := e.mapFind(yv, k)
				if j < 0 {
					return Bool{C: false}
				}
				r = e.and(r, eq(xv.Vals[i], yv.Vals[j]))
			}
			return r
		case Iface:
			yv, ok := y.(Iface)
			if !ok {
				return Bool{C: false}
			}
			if xv.T == nil || yv.T == nil {
				return Bool{C: xv.T == nil && yv.T == nil}
			}
			if !types.Identical(xv.T, yv.T) {
				return Bool{C: false}
			}
			return eq(xv.V, yv.V)
		case *Native:
			yv, _ := y.(*Native)
			return Bool{C: xv == yv}
		case nil:
			return Bool{C: y == nil}
		}
		return e.equals(x, y)
	}
	return eq(a[0], a[1])
}

// vsolver(name): route this harness's queries to another solver ("cvc5", "z3", "z3-new"); must precede any symbolic term.
func primSolver(e *Exec, a []Value) Value {
	name := a[0].(Str).Conc()
	if e.nterm > 0 {
		panic("vsolver after symbolic terms were created")
	}
	so := e.extraSolvers[name]
	if so == nil || so.dead {
		ns, err := NewSolver(name, e.sol.timeout, "")
		if err != nil {
			panic(unsupported("cannot start solver " + name))
		}
		if so != nil {
			ns.Queries, ns.Sat, ns.Unsat, ns.Unknown, ns.Errors, ns.Time = so.Queries, so.Sat, so.Unsat, so.Unknown, so.Errors, so.Time
			so.Close()
		}
		so = ns
		e.extraSolvers[name] = so
	}
	e.sol.Pop()
	e.sol = so
	e.sol.Push()
	return nil
}

// vpin(s): the same string, but every byte is a fresh symbolic constant constrained to its value: forces the symbolic
// code paths of the models while keeping a known expected result (translator validation).
func primPin(e *Exec, a []Value) Value {
	s := a[0].(Str).Conc()
	bs := make([]Int, len(s))
	for i := 0; i < len(s); i++ {
		t := e.fresh("p", e.intSort(8))
		x := Int{W: 8, S: t}
		e.assume(e.intCmp(token.EQL, x, Int{W: 8, C: int64(s[i])}))
		// keep it symbolic: do not attach a point interval
		bs[i] = Int{W: 8, S: &Term{Name: t.Name, Sort: t.Sort, Lo: 0, Hi: 255, Bnd: true}}
	}
	if len(bs) == 0 {
		return Str{}
	}
	return Str{S: bs}
}

func primPinInt(e *Exec, a []Value) Value {
	v := a[0].(Int)
	t := e.fresh("p", e.intSort(64))
	x := Int{W: 64, Sg: true, S: t}
	e.assume(e.intCmp(token.EQL, x, v))
	lo, hi := v.C-1000, v.C+1000
	if v.C < -(1<<62) || v.C > 1<<62 {
		return Int{W: 64, Sg: true, S: &Term{Name: t.Name, Sort: t.Sort}}
	}
	return Int{W: 64, Sg: true, S: &Term{Name: t.Name, Sort: t.Sort, Lo: lo, Hi: hi, Bnd: true}}
}

func primObserve(e *Exec, a []Value) Value {
	e.observed = append(e.observed, a[0].(Str).Conc()+"="+a[1].(Str).Conc())
	return nil
}

func primReadFile(e *Exec, a []Value) Value {
	b, err := os.ReadFile(a[0].(Str).Conc())
	if err != nil {
		panic(unsupported("vreadfile: " + err.Error()))
	}
	return Str{C: string(b)}
}
