package main

import (
	"fmt"
	"go/token"
	"go/types"
	"io"
	"regexp"
	"strings"
	"time"

	"golang.org/x/net/html"
	"golang.org/x/text/unicode/norm"
)

func (e *Exec) intToFloat64(x Int) Float {
	return e.intToFloat(x, types.Typ[types.Float64]).(Float)
}

func natOf(v Value) *Native {
	p, ok := v.(*Value)
	if !ok || p == nil {
		panic(goPanic{msg: "nil pointer dereference (native receiver)"})
	}
	n, ok := (*p).(*Native)
	if !ok {
		panic(fmt.Sprintf("natOf: %T", *p))
	}
	return n
}

func intSliceVal(xs []int) Value {
	if xs == nil {
		return Slice{Nil: true}
	}
	b := make([]Value, len(xs))
	for i, x := range xs {
		b[i] = ci(x)
	}
	return Slice{B: b, N: len(b)}
}

func regexpMethods() map[string]intrinsic {
	need := func(e *Exec, s Str, what string) string {
		if !isC(s) {
			panic(unsupported("regexp " + what + " on symbolic string"))
		}
		return s.Conc()
	}
	return map[string]intrinsic{
		"(*regexp.Regexp).MatchString": func(e *Exec, a []Value) (Value, bool) {
			re := natOf(a[0]).V.(*regexp.Regexp)
			return cb(re.MatchString(need(e, a[1].(Str), "MatchString"))), true
		},
		"(*regexp.Regexp).FindStringSubmatch": func(e *Exec, a []Value) (Value, bool) {
			nat := natOf(a[0])
			re := nat.V.(*regexp.Regexp)
			s := a[1].(Str)
			if !isC(s) {
				if r, ok := e.symRegexpSubmatch(nat.Aux.(string), s); ok {
					return r, true
				}
			}
			m := re.FindStringSubmatch(need(e, s, "FindStringSubmatch"))
			if m == nil {
				return Slice{Nil: true}, true
			}
			var r []Str
			for _, x := range m {
				r = append(r, cs(x))
			}
			return strSliceVal(r), true
		},
		"(*regexp.Regexp).FindStringIndex": func(e *Exec, a []Value) (Value, bool) {
			nat := natOf(a[0])
			re := nat.V.(*regexp.Regexp)
			s := a[1].(Str)
			if !isC(s) {
				if r, ok := e.symRegexpIndex(nat.Aux.(string), s); ok {
					return r, true
				}
			}
			return intSliceVal(re.FindStringIndex(need(e, s, "FindStringIndex"))), true
		},
		"(*regexp.Regexp).FindAllStringIndex": func(e *Exec, a []Value) (Value, bool) {
			re := natOf(a[0]).V.(*regexp.Regexp)
			n := e.concInt(a[2])
			m := re.FindAllStringIndex(need(e, a[1].(Str), "FindAllStringIndex"), n)
			if m == nil {
				return Slice{Nil: true}, true
			}
			b := make([]Value, len(m))
			for i, x := range m {
				b[i] = intSliceVal(x)
			}
			return Slice{B: b, N: len(b)}, true
		},
		"(*regexp.Regexp).FindAllStringSubmatchIndex": func(e *Exec, a []Value) (Value, bool) {
			re := natOf(a[0]).V.(*regexp.Regexp)
			n := e.concInt(a[2])
			m := re.FindAllStringSubmatchIndex(need(e, a[1].(Str), "FindAllStringSubmatchIndex"), n)
			if m == nil {
				return Slice{Nil: true}, true
			}
			b := make([]Value, len(m))
			for i, x := range m {
				b[i] = intSliceVal(x)
			}
			return Slice{B: b, N: len(b)}, true
		},
		"(*regexp.Regexp).ReplaceAllString": func(e *Exec, a []Value) (Value, bool) {
			re := natOf(a[0]).V.(*regexp.Regexp)
			return cs(re.ReplaceAllString(need(e, a[1].(Str), "ReplaceAllString"), need(e, a[2].(Str), "ReplaceAllString"))), true
		},
		"(*regexp.Regexp).FindAllString": func(e *Exec, a []Value) (Value, bool) {
			re := natOf(a[0]).V.(*regexp.Regexp)
			n := e.concInt(a[2])
			m := re.FindAllString(need(e, a[1].(Str), "FindAllString"), n)
			if m == nil {
				return Slice{Nil: true}, true
			}
			var r []Str
			for _, x := range m {
				r = append(r, cs(x))
			}
			return strSliceVal(r), true
		},
	}
}

// symRegexpSubmatch / symRegexpIndex: hand-written matchers for specific literal patterns (the pattern text is
// read from the program under analysis; an unknown pattern falls back to "unsupported").
func (e *Exec) symRegexpSubmatch(pat string, s Str) (Value, bool) {
	switch pat {
	case `^(\d+(\.\d+)?)(h|m|s|ms|f|t)$`:
		// digits+ ( '.' digits+ )? unit
		n := s.Len()
		i := 0
		for i < n && e.branch(e.isDigit(s.At(i))) {
			i++
		}
		if i == 0 {
			return Slice{Nil: true}, true
		}
		intEnd := i
		fracStart, fracEnd := -1, -1
		if i < n && e.branch(e.intCmp(token.EQL, s.At(i), byteC('.'))) {
			j := i + 1
			for j < n && e.branch(e.isDigit(s.At(j))) {
				j++
			}
			if j > i+1 {
				fracStart, fracEnd = i, j
				i = j
			}
			// else: the optional group does not match; the unit must start at '.', which fails below
		}
		numEnd := intEnd
		if fracStart >= 0 {
			numEnd = fracEnd
		}
		rest := s.Sub(numEnd, n)
		var unit string
		found := false
		for _, u := range []string{"h", "ms", "m", "s", "f", "t"} {
			if rest.Len() == len(u) && e.branch(e.strEq(rest, cs(u))) {
				unit = u
				found = true
				break
			}
		}
		if !found {
			return Slice{Nil: true}, true
		}
		g2 := cs("")
		if fracStart >= 0 {
			g2 = s.Sub(fracStart, fracEnd)
		}
		return strSliceVal([]Str{s, s.Sub(0, numEnd), g2, cs(unit)}), true
	}
	return nil, false
}

func (e *Exec) symRegexpIndex(pat string, s Str) (Value, bool) {
	switch pat {
	case `\:[\d]+$`:
		// leftmost ':' followed only by digits (at least one) up to the end
		n := s.Len()
		for i := 0; i < n; i++ {
			if !e.branch(e.intCmp(token.EQL, s.At(i), byteC(':'))) {
				continue
			}
			if i+1 >= n {
				continue
			}
			all := true
			for j := i + 1; j < n; j++ {
				if !e.branch(e.isDigit(s.At(j))) {
					all = false
					break
				}
			}
			if all {
				return intSliceVal([]int{i, n}), true
			}
		}
		return Slice{Nil: true}, true
	}
	return nil, false
}

// ---------- time model: Time = {wall: 0 zero / 1 set, ext: ns since Unix epoch, loc: nil UTC / local cell} ----------

func (e *Exec) mkTime(ns Int, local bool) Value {
	var loc Value = (*Value)(nil)
	if local {
		loc = e.localLoc()
	}
	return Struct{Int{W: 64, C: 1}, ns, loc}
}

func (e *Exec) localLoc() *Value {
	if e.locCell == nil {
		e.locCell = new(Value)
		*e.locCell = &Native{Kind: "loc", V: time.Local}
	}
	return e.locCell
}

func timeOf(v Value) (set bool, ns Int, local bool) {
	st := v.(Struct)
	w := st[0].(Int)
	p, _ := st[2].(*Value)
	return w.C != 0, st[1].(Int), p != nil
}

func (e *Exec) goTime(v Value) time.Time {
	set, ns, local := timeOf(v)
	if !set {
		return time.Time{}
	}
	if ns.S != nil {
		panic(unsupported("time formatting of symbolic instant"))
	}
	t := time.Unix(0, ns.C)
	if local {
		return t.In(locOf(v))
	}
	return t.UTC()
}

// locOf: the Go location a modelled Time carries (nil pointer: UTC; else a cell holding a native *time.Location).
func locOf(v Value) *time.Location {
	st := v.(Struct)
	p, _ := st[2].(*Value)
	if p == nil {
		return time.UTC
	}
	if n, ok := (*p).(*Native); ok && n.Kind == "loc" {
		if l, ok := n.V.(*time.Location); ok && l != nil {
			return l
		}
	}
	return time.Local
}

// timeIn builds the modelled Time for a concrete instant in the location held by cell (nil: UTC).
func timeIn(ns int64, cell *Value) Value {
	var loc Value = (*Value)(nil)
	if cell != nil {
		loc = cell
	}
	return Struct{Int{W: 64, C: 1}, Int{W: 64, Sg: true, C: ns}, loc}
}

func (e *Exec) ioEOF() Value {
	g := e.P.ByPath["io"].Var("EOF")
	return *e.global(g)
}

// harnessStub calls the harness-provided provider function name, if it exists.
func (e *Exec) harnessStub(name string, args []Value) (Value, bool) {
	f := e.P.Main.Func(name)
	if f == nil {
		return nil, false
	}
	e.stubsUsed[name] = true
	return e.callFn(f, args, nil, nil), true
}

func moreIntrinsics() map[string]intrinsic {
	return map[string]intrinsic{
		"time.Now": func(e *Exec, a []Value) (Value, bool) {
			if r, ok := e.harnessStub("vstubNow", nil); ok {
				return r, true
			}
			return e.mkTime(Int{W: 64, Sg: true, C: 1700000000 * 1e9}, true), true
		},
		"time.Date": func(e *Exec, a []Value) (Value, bool) {
			var v [7]int
			for i := 0; i < 7; i++ {
				v[i] = e.concInt(a[i])
			}
			cell, _ := a[7].(*Value)
			loc := time.UTC
			if cell != nil {
				if n, ok := (*cell).(*Native); ok && n.Kind == "loc" {
					if l, ok := n.V.(*time.Location); ok && l != nil {
						loc = l
					}
				}
			}
			t := time.Date(v[0], time.Month(v[1]), v[2], v[3], v[4], v[5], v[6], loc)
			return timeIn(t.UnixNano(), cell), true
		},
		"time.FixedZone": func(e *Exec, a []Value) (Value, bool) {
			cell := new(Value)
			*cell = &Native{Kind: "loc", V: time.FixedZone(a[0].(Str).Conc(), e.concInt(a[1]))}
			return cell, true
		},
		"(time.Time).Truncate": func(e *Exec, a []Value) (Value, bool) {
			d := a[1].(Int)
			if d.S != nil {
				panic(unsupported("time.Truncate by a symbolic duration"))
			}
			t := e.goTime(a[0]).Truncate(time.Duration(d.C))
			cell, _ := a[0].(Struct)[2].(*Value)
			return timeIn(t.UnixNano(), cell), true
		},
		"(time.Time).In": func(e *Exec, a []Value) (Value, bool) {
			cell, _ := a[1].(*Value)
			return timeIn(e.goTime(a[0]).UnixNano(), cell), true
		},
		"(time.Time).UTC": func(e *Exec, a []Value) (Value, bool) {
			return timeIn(e.goTime(a[0]).UnixNano(), nil), true
		},
		"time.Unix": func(e *Exec, a []Value) (Value, bool) {
			sec, nsec := a[0].(Int), a[1].(Int)
			ns := e.intBin(token.ADD, e.intBin(token.MUL, sec, ci(1e9)), nsec)
			return e.mkTime(ns, true), true
		},
		"(time.Time).IsZero": func(e *Exec, a []Value) (Value, bool) {
			set, _, _ := timeOf(a[0])
			return cb(!set), true
		},
		"(time.Time).Sub": func(e *Exec, a []Value) (Value, bool) {
			s1, n1, _ := timeOf(a[0])
			s2, n2, _ := timeOf(a[1])
			if !s1 || !s2 {
				if !s1 && !s2 {
					return ci(0), true
				}
				panic(unsupported("time.Sub with the zero Time"))
			}
			return e.intBin(token.SUB, n1, n2), true
		},
		"(time.Time).Before": func(e *Exec, a []Value) (Value, bool) {
			_, n1, _ := timeOf(a[0])
			_, n2, _ := timeOf(a[1])
			return e.intCmp(token.LSS, n1, n2), true
		},
		"(time.Time).After": func(e *Exec, a []Value) (Value, bool) {
			_, n1, _ := timeOf(a[0])
			_, n2, _ := timeOf(a[1])
			return e.intCmp(token.GTR, n1, n2), true
		},
		"(time.Time).Equal": func(e *Exec, a []Value) (Value, bool) {
			s1, n1, _ := timeOf(a[0])
			s2, n2, _ := timeOf(a[1])
			if s1 != s2 {
				return cb(false), true
			}
			return e.intCmp(token.EQL, n1, n2), true
		},
		"(time.Time).Add": func(e *Exec, a []Value) (Value, bool) {
			s1, n1, l := timeOf(a[0])
			if !s1 {
				panic(unsupported("time.Add on the zero Time"))
			}
			_ = l
			return Struct{Int{W: 64, C: 1}, e.intBin(token.ADD, n1, a[1].(Int)), a[0].(Struct)[2]}, true
		},
		"(time.Time).UnixNano": func(e *Exec, a []Value) (Value, bool) {
			_, n1, _ := timeOf(a[0])
			return n1, true
		},
		"(time.Time).Format": func(e *Exec, a []Value) (Value, bool) {
			return cs(e.goTime(a[0]).Format(a[1].(Str).Conc())), true
		},
		"time.Parse": func(e *Exec, a []Value) (Value, bool) {
			l, v := a[0].(Str), a[1].(Str)
			if !isC(l) || !isC(v) {
				panic(unsupported("time.Parse on symbolic string"))
			}
			t, err := time.Parse(l.Conc(), v.Conc())
			if err != nil {
				return Tuple{zero(e.timeType()), e.newError(err.Error())}, true
			}
			return Tuple{e.mkTime(Int{W: 64, Sg: true, C: t.UnixNano()}, false), nilErr()}, true
		},

		// x/text normalisation: concrete only
		"(golang.org/x/text/unicode/norm.Form).Bytes": func(e *Exec, a []Value) (Value, bool) {
			f := norm.Form(e.concInt(a[0]))
			s := sliceToStr(a[1])
			if !isC(s) {
				panic(unsupported("unicode normalisation of symbolic text"))
			}
			return strToSlice(cs(string(f.Bytes([]byte(s.Conc()))))), true
		},
		"(golang.org/x/text/unicode/norm.Form).String": func(e *Exec, a []Value) (Value, bool) {
			f := norm.Form(e.concInt(a[0]))
			s := a[1].(Str)
			if !isC(s) {
				panic(unsupported("unicode normalisation of symbolic text"))
			}
			return cs(f.String(s.Conc())), true
		},

		// html tokenizer
		"golang.org/x/net/html.NewTokenizer": func(e *Exec, a []Value) (Value, bool) {
			rd := a[0].(Iface)
			p, ok := rd.V.(*Value)
			if !ok || p == nil || !strings.HasSuffix(rd.T.String(), "strings.Reader") {
				panic(unsupported("html.NewTokenizer on a reader other than *strings.Reader"))
			}
			s := (*p).(Struct)[0].(Str)
			cell := new(Value)
			if isC(s) {
				*cell = &Native{Kind: "htmltok", V: html.NewTokenizer(strings.NewReader(s.Conc()))}
				return cell, true
			}
			// tag-free model: no byte may be '<'
			for i := 0; i < s.Len(); i++ {
				if e.branch(e.intCmp(token.EQL, s.At(i), byteC('<'))) {
					panic(unsupported("html tokenizer on symbolic text that may contain '<'"))
				}
			}
			*cell = &Native{Kind: "htmltok-sym", V: &symTok{s: s}}
			return cell, true
		},
		"(*golang.org/x/net/html.Tokenizer).Next": func(e *Exec, a []Value) (Value, bool) {
			n := natOf(a[0])
			if n.Kind == "htmltok" {
				return Int{W: 32, C: int64(n.V.(*html.Tokenizer).Next())}, true
			}
			st := n.V.(*symTok)
			st.state++
			if st.state == 1 && st.s.Len() > 0 {
				return Int{W: 32, C: int64(html.TextToken)}, true
			}
			st.state = 2
			return Int{W: 32, C: int64(html.ErrorToken)}, true
		},
		"(*golang.org/x/net/html.Tokenizer).Err": func(e *Exec, a []Value) (Value, bool) {
			n := natOf(a[0])
			if n.Kind == "htmltok" {
				err := n.V.(*html.Tokenizer).Err()
				if err == nil {
					return nilErr(), true
				}
				if err == io.EOF {
					return e.ioEOF(), true
				}
				return e.newError(err.Error()), true
			}
			if n.V.(*symTok).state >= 2 {
				return e.ioEOF(), true
			}
			return nilErr(), true
		},
		"(*golang.org/x/net/html.Tokenizer).Raw": func(e *Exec, a []Value) (Value, bool) {
			n := natOf(a[0])
			if n.Kind == "htmltok" {
				return strToSlice(cs(string(n.V.(*html.Tokenizer).Raw()))), true
			}
			st := n.V.(*symTok)
			if st.state == 1 {
				return strToSlice(st.s), true
			}
			return strToSlice(cs("")), true
		},
		"(*golang.org/x/net/html.Tokenizer).Token": func(e *Exec, a []Value) (Value, bool) {
			n := natOf(a[0])
			if n.Kind == "htmltok" {
				t := n.V.(*html.Tokenizer).Token()
				var attrs []Value
				for _, at := range t.Attr {
					attrs = append(attrs, Struct{cs(at.Namespace), cs(at.Key), cs(at.Val)})
				}
				av := Slice{Nil: true}
				if attrs != nil {
					av = Slice{B: attrs, N: len(attrs)}
				}
				return Struct{Int{W: 32, C: int64(t.Type)}, Int{W: 32, C: int64(t.DataAtom)}, cs(t.Data), av}, true
			}
			st := n.V.(*symTok)
			if st.state == 1 {
				// Data of a text token is the unescaped text; astisub never reads it for text tokens.
				return Struct{Int{W: 32, C: int64(html.TextToken)}, Int{W: 32}, cs("<verif:unmodelled-token-data>"), Slice{Nil: true}}, true
			}
			return Struct{Int{W: 32, C: int64(html.ErrorToken)}, Int{W: 32}, cs(""), Slice{Nil: true}}, true
		},

		// os / files: behaviour delegated to harness providers
		// the flag and log packages as the astisub command uses them: flags are cells the harness primitive vcliRun
		// fills, parsing is a no-op, log.Fatal ends the command
		"flag.Duration": func(e *Exec, a []Value) (Value, bool) { return e.flagCell(a[0], a[1]), true },
		"flag.Int":      func(e *Exec, a []Value) (Value, bool) { return e.flagCell(a[0], a[1]), true },
		"flag.String":   func(e *Exec, a []Value) (Value, bool) { return e.flagCell(a[0], a[1]), true },
		"flag.Var":      func(e *Exec, a []Value) (Value, bool) { return nil, true },
		"flag.Parse":    func(e *Exec, a []Value) (Value, bool) { return nil, true },
		"github.com/asticode/go-astikit.FlagCmd": func(e *Exec, a []Value) (Value, bool) { return cs(e.cliCmd), true },
		"log.Fatal":  func(e *Exec, a []Value) (Value, bool) { panic(cliFatal{}) },
		"log.Fatalf": func(e *Exec, a []Value) (Value, bool) { panic(cliFatal{}) },
		"os.Open": func(e *Exec, a []Value) (Value, bool) {
			if r, ok := e.harnessStub("vstubOpen", a); ok {
				return e.fileResultNamed(r, a[0]), true
			}
			panic(unsupported("os.Open without harness provider vstubOpen"))
		},
		"os.Create": func(e *Exec, a []Value) (Value, bool) {
			if r, ok := e.harnessStub("vstubCreate", a); ok {
				return e.fileResultNamed(r, a[0]), true
			}
			panic(unsupported("os.Create without harness provider vstubCreate"))
		},
		"(*os.File).Close": func(e *Exec, a []Value) (Value, bool) {
			if p, ok := a[0].(*Value); !ok || p == nil {
				return e.newError("invalid argument"), true
			}
			return nilErr(), true
		},
		"(*os.File).Read": func(e *Exec, a []Value) (Value, bool) {
			if name, ok := fileName(a[0]); ok {
				if r, ok := e.harnessStub("vstubFileReadNamed", []Value{name, a[1]}); ok {
					return r, true
				}
			}
			if r, ok := e.harnessStub("vstubFileRead", a[1:]); ok {
				return r, true
			}
			panic(unsupported("(*os.File).Read without provider"))
		},
		"(*os.File).Write": func(e *Exec, a []Value) (Value, bool) {
			if name, ok := fileName(a[0]); ok {
				if r, ok := e.harnessStub("vstubFileWriteNamed", []Value{name, a[1]}); ok {
					return r, true
				}
			}
			if r, ok := e.harnessStub("vstubFileWrite", a[1:]); ok {
				return r, true
			}
			panic(unsupported("(*os.File).Write without provider"))
		},
		"math/rand.NewSource": func(e *Exec, a []Value) (Value, bool) {
			return Iface{}, true
		},
		"context.Background": func(e *Exec, a []Value) (Value, bool) { return Iface{}, true },

		// encoding/xml: the (de)serialisation layer is outside the encoding; values are provided/captured by the harness
		"encoding/xml.NewDecoder": func(e *Exec, a []Value) (Value, bool) {
			cell := new(Value)
			*cell = &Native{Kind: "xmldec", V: a[0]}
			return cell, true
		},
		"(*encoding/xml.Decoder).Decode": func(e *Exec, a []Value) (Value, bool) {
			if r, ok := e.harnessStub("vstubXMLDecode", a[1:]); ok {
				return r, true
			}
			panic(unsupported("xml Decode without harness provider vstubXMLDecode"))
		},
		"encoding/xml.NewTokenDecoder": func(e *Exec, a []Value) (Value, bool) {
			cell := new(Value)
			*cell = &Native{Kind: "xmldec", V: a[0]}
			return cell, true
		},
		"encoding/xml.NewEncoder": func(e *Exec, a []Value) (Value, bool) {
			cell := new(Value)
			*cell = &Native{Kind: "xmlenc", V: a[0]}
			return cell, true
		},
		"(*encoding/xml.Encoder).Indent": func(e *Exec, a []Value) (Value, bool) { return nil, true },
		"(*encoding/xml.Encoder).Encode": func(e *Exec, a []Value) (Value, bool) {
			if r, ok := e.harnessStub("vstubXMLEncode", a[1:]); ok {
				return r, true
			}
			panic(unsupported("xml Encode without harness provider vstubXMLEncode"))
		},

		// astits demultiplexer
		"github.com/asticode/go-astits.NewDemuxer": func(e *Exec, a []Value) (Value, bool) {
			cell := new(Value)
			*cell = &Native{Kind: "demuxer", V: a[1]}
			return cell, true
		},
		"(*github.com/asticode/go-astits.Demuxer).NextData": func(e *Exec, a []Value) (Value, bool) {
			if r, ok := e.harnessStub("vstubNextData", nil); ok {
				return r, true
			}
			panic(unsupported("Demuxer.NextData without harness provider vstubNextData"))
		},
		"(*github.com/asticode/go-astits.Demuxer).Rewind": func(e *Exec, a []Value) (Value, bool) {
			if r, ok := e.harnessStub("vstubRewind", nil); ok {
				return r, true
			}
			panic(unsupported("Demuxer.Rewind without harness provider vstubRewind"))
		},
	}
}

type symTok struct {
	s     Str
	state int
}

func (e *Exec) timeType() types.Type {
	return e.P.ByPath["time"].Type("Time").Type()
}

// fileResult converts a provider's (ok bool)-style or error result into (*os.File, error).
func (e *Exec) fileResult(r Value) Value {
	// provider returns error: nil => success
	err := r.(Iface)
	if err.T != nil {
		return Tuple{(*Value)(nil), err}
	}
	cell := new(Value)
	*cell = &Native{Kind: "file"}
	return Tuple{cell, nilErr()}
}

func (e *Exec) fileResultNamed(r Value, name Value) Value {
	t := e.fileResult(r).(Tuple)
	if cell, ok := t[0].(*Value); ok && cell != nil {
		(*cell).(*Native).V = name
	}
	return t
}

func fileName(f Value) (Value, bool) {
	cell, ok := f.(*Value)
	if !ok || cell == nil {
		return nil, false
	}
	n, ok := (*cell).(*Native)
	if !ok || n.Kind != "file" || n.V == nil {
		return nil, false
	}
	s, ok := n.V.(Str)
	return s, ok
}

type cliFatal struct{}

func (e *Exec) flagCell(name, def Value) Value {
	cell := new(Value)
	*cell = def
	if e.flagCells == nil {
		e.flagCells = map[string]*Value{}
	}
	e.flagCells[name.(Str).Conc()] = cell
	return cell
}

// primCLIRun runs the astisub command's main function from SSA: vcliRun(cmd, inputs, output, page, durs) where durs
// are the values of -a1 -a2 -d1 -d2 -f -s in nanoseconds. Returns whether the command ended in log.Fatal.
func primCLIRun(e *Exec, a []Value) Value {
	cli := e.P.CLI
	if cli == nil {
		panic(unsupported("the astisub command package is not present"))
	}
	e.flagCells = map[string]*Value{}
	e.cliCmd = a[0].(Str).Conc()
	// the command's package initialiser registers the flags (a fresh one per call: every run is a fresh process)
	for g := range e.globals {
		if g.Pkg == cli {
			delete(e.globals, g)
		}
	}
	e.callFn(cli.Func("init"), nil, nil, nil)
	set := func(name string, v Value) {
		c := e.flagCells[name]
		if c == nil {
			panic(unsupported("astisub command: flag -" + name + " is not registered"))
		}
		*c = v
	}
	set("o", a[2])
	set("p", a[3])
	durs := a[4].(Slice)
	for i, n := range []string{"a1", "a2", "d1", "d2", "f", "s"} {
		if i < durs.N {
			set(n, durs.B[i])
		}
	}
	ip := e.global(cli.Var("inputPath"))
	st, ok := (*ip).(Struct)
	if !ok || len(st) != 2 {
		panic(unsupported("astisub command: inputPath is not an astikit.FlagStrings"))
	}
	sp, ok := st[1].(*Value)
	if !ok || sp == nil {
		panic(unsupported("astisub command: inputPath.Slice is nil"))
	}
	in := a[1].(Slice)
	paths := make([]Value, in.N)
	copy(paths, in.B[:in.N])
	*sp = Slice{B: paths, N: len(paths)}
	fatal := false
	func() {
		depth, stack := e.depth, len(e.stack)
		defer func() {
			if r := recover(); r != nil {
				if _, ok := r.(cliFatal); ok {
					fatal = true
					e.depth, e.stack = depth, e.stack[:stack]
					return
				}
				panic(r)
			}
		}()
		e.callFn(cli.Func("main"), nil, nil, nil)
	}()
	return Bool{C: fatal}
}

func (e *Exec) nativeMethod(n *Native, name string, args []Value) Value {
	panic(unsupported("method " + name + " on native " + n.Kind))
}
