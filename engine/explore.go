package main

import (
	"fmt"
	"go/constant"
	"os"
	"runtime/debug"
	"sort"
	"strings"
	"sync"
	"time"

	"golang.org/x/tools/go/ssa"
)

type HarnessResult struct {
	Name        string
	Mode        string
	Paths       int // completed feasible paths
	Infeasible  int
	Decisions   int
	Undecided   []string // unsupported / unknown
	Unwind      []string
	Viols       []Violation
	Reached     map[string]bool
	ExpectReach []string
	Asserts     map[string]int
	NontrivPath int
	Queries     int
	Sat         int
	Unsat       int
	Unknown     int
	SolverErr   int
	SolverTime  time.Duration
	Steps       int64
	Funcs       map[string]bool
	Intrinsics  map[string]bool
	Stubs       map[string]bool
	Bounds      map[string]int
	Notes       map[string]bool
	Wraps       int
	Nonlinear   int
	FloatRounds int
	Samples     []string
	Truncated   bool
	EngineErr   []string
	Observed    []string
	FbQueries, FbDecided int
	FbTime      time.Duration
	Wall        time.Duration
	Witnesses   [][]VecEntry // sampled concrete inputs of completed paths, replayed natively afterwards
	WitOK, WitSkip int
	WitFail     []string
}

type Config struct {
	Tier       string
	Workers    int
	TimeoutMs  int
	MaxSteps   int
	MaxPaths   int
	SolverName string
	SolverINT  string
	Fallbacks  []string
	FallbackMs int
	LogDir     string
	Verbose    bool
	Budget     time.Duration
	Witnesses  int // completed paths per harness whose model input is re-run natively
}

var initWhitelist = map[string]bool{
	"github.com/asticode/go-astikit": true,
	"github.com/asticode/go-astits":  true,
	"github.com/asticode/go-astisub/astisub": true,
	"bufio":                          true,
	"encoding/binary":                true,
	"io":                             true,
}

func (e *Exec) resetPath(prefix []Decision) {
	e.prefix = prefix
	e.pos = 0
	e.trace = e.trace[:0]
	e.siblings = nil
	e.vec = nil
	e.nterm = 0
	e.steps = 0
	e.depth = 0
	e.stack = e.stack[:0]
	e.mode = ModeBV
	e.viols = nil
	e.undecided = nil
	e.mapOrder = false
	e.globals = map[*ssa.Global]*Value{}
	e.initDone = map[*ssa.Package]bool{}
	e.frozen = nil
	e.frozenMaps = map[*Map]bool{}
	e.checkFrz = false
	e.sawAssert = false
	e.symAssert = false
	e.locCell = nil
	e.pcDirty = false
	e.known = map[string]bool{}
	e.observed = nil
	e.tables = map[*Value]string{}
	e.pools = map[*Value][]Value{}
	e.syncMaps = map[*Value]*Map{}
	e.roundings = nil
	e.defCache = map[string]string{}
	e.radixes = map[string]*radix{}
	e.divCache = map[string][2]Int{}
	e.floorCache = map[string]*Term{}
	e.refine = map[string][2]int64{}
}

// runInit executes the package initialisers of astisub and the whitelisted dependencies.
func (e *Exec) runInit() {
	e.inInit = true
	e.callFn(e.P.Main.Func("init"), nil, nil, nil)
	e.inInit = false
}

// runPath executes one path. It returns the sibling prefixes discovered and how the path ended.
func (e *Exec) runPath(h *ssa.Function, prefix []Decision) (end string, msg string) {
	e.resetPath(prefix)
	e.pathStart = time.Now()
	e.sol = e.solBV
	e.sol.Push()
	defer func() {
		e.sol.Pop()
	}()
	defer func() {
		if r := recover(); r != nil {
			switch r := r.(type) {
			case goPanic:
				// a run-time panic of the code under analysis: violation if the path is feasible
				if e.sol.Check() == "sat" {
					e.recordViolation("panic", "panic: "+normPanic(r.msg), r.msg)
				}
				end, msg = "panic", r.msg
				if e.curInstr != nil && os.Getenv("VERIF_DEBUG") != "" {
					fmt.Fprintf(os.Stderr, "PANIC %s at instr %q in %s%s\n", r.msg, e.curInstr.String(), e.curInstr.Parent(), e.stackStr(6))
				}
			case unsupportedErr:
				end, msg = "unsupported", r.msg+" at "+e.posStr(e.curPos)+e.stackStr(4)
			case pathStop:
				end, msg = r.kind, r.msg
			default:
				where := ""
				if e.curInstr != nil {
					where = fmt.Sprintf(" at instr %q in %s (%s)", e.curInstr.String(), e.curInstr.Parent(), e.posStr(e.curPos))
				}
				for i := len(e.stack) - 1; i >= 0 && i >= len(e.stack)-12; i-- {
					where += "\n    called from " + e.stack[i].String()
				}
				st := string(debug.Stack())
				if len(st) > 3000 {
					st = st[:3000]
				}
				end, msg = "engine-error", fmt.Sprintf("%v%s\n%s", r, where, st)
			}
		}
	}()
	e.runInit()
	e.callFn(h, nil, nil, nil)
	if e.pcDirty && e.sol.Check() == "unsat" {
		return "infeasible", ""
	}
	e.witness = nil
	if len(e.viols) == 0 && e.wantWitness != nil && e.wantWitness() {
		e.captureWitness()
	}
	return "ok", ""
}

func normPanic(m string) string {
	// strip concrete numbers so that the label identifies the kind of panic
	if i := strings.Index(m, ":"); i > 0 && i < 40 {
		return m[:i]
	}
	if len(m) > 60 {
		return m[:60]
	}
	return m
}

// expectedReach collects the constant labels of vreach calls reachable from the harness (same-package callees).
func expectedReach(p *Program, h *ssa.Function) []string {
	seen := map[*ssa.Function]bool{}
	labels := map[string]bool{}
	var walk func(f *ssa.Function)
	walk = func(f *ssa.Function) {
		if f == nil || seen[f] || f.Blocks == nil {
			return
		}
		seen[f] = true
		pos := p.Prog.Fset.Position(f.Pos())
		if !strings.Contains(pos.Filename, "zz_verif_") {
			return
		}
		for _, b := range f.Blocks {
			for _, in := range b.Instrs {
				if c, ok := in.(*ssa.Call); ok {
					if callee := c.Call.StaticCallee(); callee != nil {
						if callee.Name() == "vreach" && callee.Pkg == p.Main {
							if k, ok := c.Call.Args[0].(*ssa.Const); ok && k.Value != nil {
								labels[constant.StringVal(k.Value)] = true
							}
						} else {
							walk(callee)
						}
					}
				}
				if mc, ok := in.(*ssa.MakeClosure); ok {
					walk(mc.Fn.(*ssa.Function))
				}
			}
		}
	}
	walk(h)
	var r []string
	for l := range labels {
		r = append(r, l)
	}
	sort.Strings(r)
	return r
}

func exploreHarness(p *Program, h *ssa.Function, cfg Config) *HarnessResult {
	t0 := time.Now()
	res := &HarnessResult{Name: h.Name(), Reached: map[string]bool{}, Asserts: map[string]int{}, Funcs: map[string]bool{},
		Intrinsics: map[string]bool{}, Stubs: map[string]bool{}, Bounds: map[string]int{}, Notes: map[string]bool{}}
	res.ExpectReach = expectedReach(p, h)

	var mu sync.Mutex
	cond := sync.NewCond(&mu)
	stack := [][]Decision{{}}
	active := 0
	started := 0
	violKeys := map[string]int{}
	witSeq, witPending := 0, 0
	deadline := time.Time{}
	if cfg.Budget > 0 {
		deadline = t0.Add(cfg.Budget)
	}

	worker := func(id int) {
		logPath := ""
		if cfg.LogDir != "" {
			logPath = fmt.Sprintf("%s/%s.w%d.smt2", cfg.LogDir, h.Name(), id)
		}
		sol, err := NewSolver(cfg.SolverName, cfg.TimeoutMs, logPath)
		if err != nil {
			mu.Lock()
			res.EngineErr = append(res.EngineErr, "solver start: "+err.Error())
			mu.Unlock()
			return
		}
		solI, err := NewSolver(cfg.SolverINT, cfg.TimeoutMs, strings.Replace(logPath, ".smt2", ".int.smt2", 1))
		if err != nil {
			mu.Lock()
			res.EngineErr = append(res.EngineErr, "solver start: "+err.Error())
			mu.Unlock()
			return
		}
		defer func() { sol.Close(); solI.Close() }()
		e := &Exec{P: p, sol: sol, solBV: sol, solINT: solI, tier: cfg.Tier, maxSteps: cfg.MaxSteps,
			reached: map[string]bool{}, asserts: map[string]int{}, bounds: map[string]int{},
			extraSolvers: map[string]*Solver{}, fallbacks: cfg.Fallbacks, fallbackMs: cfg.FallbackMs, funcsSeen: map[string]bool{}, intrUsed: map[string]bool{}, stubsUsed: map[string]bool{}, hname: h.Name()}
		e.wantWitness = func() bool {
			mu.Lock()
			defer mu.Unlock()
			witSeq++
			if len(res.Witnesses)+witPending >= cfg.Witnesses {
				return false
			}
			// spread over the exploration: the first six paths, then 8,16,32,... and every 61st
			if witSeq <= 6 || witSeq&(witSeq-1) == 0 || witSeq%61 == 0 {
				witPending++
				e.witReq = true
				return true
			}
			return false
		}
		e.pathBudget = 3 * time.Minute
		if cfg.Tier == "thorough" {
			e.pathBudget = 15 * time.Minute
		}
		npaths := 0
		for {
			mu.Lock()
			for len(stack) == 0 && active > 0 {
				cond.Wait()
			}
			if len(stack) == 0 {
				mu.Unlock()
				break
			}
			if (cfg.MaxPaths > 0 && started >= cfg.MaxPaths) || (!deadline.IsZero() && time.Now().After(deadline)) {
				res.Truncated = true
				stack = nil
				mu.Unlock()
				cond.Broadcast()
				break
			}
			prefix := stack[len(stack)-1]
			stack = stack[:len(stack)-1]
			active++
			started++
			mu.Unlock()

			npaths++
			if npaths%200 == 0 || sol.dead || solI.dead {
				// keep solver memory bounded
				sol = restartSolver(sol, cfg.SolverName, cfg.TimeoutMs)
				solI = restartSolver(solI, cfg.SolverINT, cfg.TimeoutMs)
				e.solBV, e.solINT, e.sol = sol, solI, sol
			}
			end, msg := e.runPath(h, prefix)

			mu.Lock()
			active--
			for _, s := range e.siblings {
				stack = append(stack, s)
			}
			res.Decisions += len(e.trace)
			res.Steps += int64(e.steps)
			if res.Mode == "" {
				res.Mode = e.mode.String()
			} else if res.Mode != e.mode.String() {
				res.Mode = "mixed"
			}
			if e.witReq {
				// a requested witness that could not be produced frees its slot
				e.witReq = false
				witPending--
				if e.witness != nil && end == "ok" {
					res.Witnesses = append(res.Witnesses, e.witness)
				}
			}
			switch end {
			case "ok":
				res.Paths++
				if e.symAssert {
					res.NontrivPath++
				}
				if len(res.Samples) < 4 {
					res.Samples = append(res.Samples, describePath(e))
				}
			case "infeasible":
				res.Infeasible++
			case "violated", "panic":
				res.Paths++
			case "unsupported", "undecided":
				res.Undecided = append(res.Undecided, msg)
			case "unwind":
				res.Unwind = append(res.Unwind, msg)
			case "engine-error":
				res.EngineErr = append(res.EngineErr, msg)
			}
			for _, u := range e.undecided {
				res.Undecided = append(res.Undecided, u)
			}
			for _, v := range e.viols {
				k := v.Kind + "|" + v.Label
				violKeys[k]++
				if violKeys[k] <= 3 {
					res.Viols = append(res.Viols, v)
				}
			}
			res.Observed = append(res.Observed, e.observed...)
			for k := range e.reached {
				res.Reached[k] = true
			}
			e.reached = map[string]bool{}
			for k, n := range e.asserts {
				res.Asserts[k] += n
			}
			e.asserts = map[string]int{}
			for k, v := range e.bounds {
				res.Bounds[k] = v
			}
			for _, n := range e.notes {
				res.Notes[n] = true
			}
			e.notes = nil
			res.Wraps += e.wraps
			res.Nonlinear += e.nonlinear
			res.FloatRounds += e.fltFresh
			e.wraps, e.nonlinear, e.fltFresh = 0, 0, 0
			if cfg.Verbose {
				fmt.Fprintf(os.Stderr, "[%s] path %d end=%s %s decisions=%d steps=%d siblings=%d\n", h.Name(), started, end, msg, len(e.trace), e.steps, len(e.siblings))
			}
			mu.Unlock()
			cond.Broadcast()
		}
		mu.Lock()
		all := []*Solver{sol, solI}
		for _, so := range e.extraSolvers {
			all = append(all, so)
			defer so.Close()
		}
		for _, so := range all {
			res.Queries += so.Queries
			res.Sat += so.Sat
			res.Unsat += so.Unsat
			res.Unknown += so.Unknown
			res.SolverErr += so.Errors
			res.SolverTime += so.Time
		}
		res.FbQueries += e.fbQueries
		res.FbDecided += e.fbDecided
		res.FbTime += e.fbTime
		for k := range e.funcsSeen {
			res.Funcs[k] = true
		}
		for k := range e.intrUsed {
			res.Intrinsics[k] = true
		}
		for k := range e.stubsUsed {
			res.Stubs[k] = true
		}
		mu.Unlock()
	}
	var wg sync.WaitGroup
	for i := 0; i < cfg.Workers; i++ {
		wg.Add(1)
		go func(id int) {
			defer wg.Done()
			worker(id)
		}(i)
	}
	wg.Wait()
	res.Wall = time.Since(t0)
	return res
}

func describePath(e *Exec) string {
	var sb strings.Builder
	sb.WriteString("choices/inputs:")
	n := 0
	for _, v := range e.vec {
		if n > 24 {
			sb.WriteString(" …")
			break
		}
		if v.Kind == "choose" {
			fmt.Fprintf(&sb, " choose=%d", v.Val)
		} else if v.Name == "" {
			fmt.Fprintf(&sb, " %s=%d", v.Kind, v.Val)
		} else {
			fmt.Fprintf(&sb, " %s=<symbolic %s>", v.Kind, v.Name)
		}
		n++
	}
	fmt.Fprintf(&sb, "; %d branch decisions; %d instructions", len(e.trace), e.steps)
	return sb.String()
}

func uniqStrings(xs []string, max int) []string {
	seen := map[string]int{}
	var order []string
	for _, x := range xs {
		if seen[x] == 0 {
			order = append(order, x)
		}
		seen[x]++
	}
	var r []string
	for i, x := range order {
		if i >= max {
			r = append(r, fmt.Sprintf("… and %d more distinct", len(order)-max))
			break
		}
		if seen[x] > 1 {
			r = append(r, fmt.Sprintf("%s (x%d)", x, seen[x]))
		} else {
			r = append(r, x)
		}
	}
	return r
}

func (e *Exec) stackStr(n int) string {
	s := ""
	for i := len(e.stack) - 1; i >= 0 && i >= len(e.stack)-n; i-- {
		s += " <- " + e.stack[i].String()
	}
	return s
}

func restartSolver(old *Solver, name string, timeout int) *Solver {
	ns, err := NewSolver(name, timeout, "")
	if err != nil {
		return old
	}
	ns.Queries, ns.Sat, ns.Unsat, ns.Unknown, ns.Errors, ns.Time = old.Queries, old.Sat, old.Unsat, old.Unknown, old.Errors, old.Time
	old.Close()
	return ns
}
