module verif/engine

go 1.23

require (
	golang.org/x/net v0.34.0
	golang.org/x/text v0.3.2
	golang.org/x/tools v0.29.0
)

require (
	golang.org/x/mod v0.22.0 // indirect
	golang.org/x/sync v0.10.0 // indirect
)

replace golang.org/x/net v0.34.0 => golang.org/x/net v0.0.0-20200904194848-62affa334b73
