package main

import (
	"fmt"
	"go/token"
	"go/types"
	"math"
	"strings"

	"golang.org/x/tools/go/ssa"
)

// Value is one of: Int, Bool, Float, Str, Struct, Array, Slice, *Value (pointer), *Map,
// Iface, *ssa.Function, *Closure, *ssa.Builtin, Tuple, *Native, NilFunc, *MapIter, *StrIter.
type Value interface{}

type SortKind uint8

const (
	SBool SortKind = iota
	SBV
	SInt
	SReal
	SFP
)

type Sort struct {
	K SortKind
	W int
}

func (s Sort) String() string {
	switch s.K {
	case SBool:
		return "Bool"
	case SBV:
		return fmt.Sprintf("(_ BitVec %d)", s.W)
	case SInt:
		return "Int"
	case SReal:
		return "Real"
	case SFP:
		if s.W == 32 {
			return "(_ FloatingPoint 8 24)"
		}
		return "(_ FloatingPoint 11 53)"
	}
	return "?"
}

// Term is a reference to an SMT expression already known to the solver (an atom, a literal
// or the name of a define-fun), with a sound interval for integer-valued terms.
type Term struct {
	Name string
	Sort Sort
	Lo   int64
	Hi   int64
	Bnd  bool // Lo/Hi valid (mathematical value of the Go integer the term stands for)
	Int  bool // for Real-sorted terms: value is known to be an integer (exact)
	IntT *Term
	// for Real-sorted terms: sound bounds
	RLo, RHi float64
	RBnd     bool
	// for Bool-sorted terms of the form "X op C": lets an assertion refine X's interval
	CmpX  *Term
	CmpOp token.Token
	CmpC  int64
	CmpSg bool
	// INT mode: the term equals Base + Off (Base is not itself of that form)
	Base *Term
	Off  int64
	// the term is decimal digit DigK (0 = least significant) of the DigN-digit non-negative number DigOf
	DigOf *Term
	DigK  int
	DigN  int
	// the term equals X mod RadC for the dividend X of the mixed-radix decomposition Rad
	Rad                    *radix
	RadHi, RadLo, RadUnit int64
	// INT mode: the term is the sum of these addends (no wrap-around)
	Sum []Int
	// INT mode: the term is MulOf * MulC (no wrap-around, MulC > 1)
	MulOf *Term
	MulC  int64
	// Real terms: candidate for floor(term), to be confirmed by the solver
	FloorCand *Term
}

type Int struct {
	W  uint8
	Sg bool
	C  int64 // bit pattern, sign- or zero-extended to 64 bits according to Sg
	S  *Term
}

type Bool struct {
	C bool
	S *Term
}

type Float struct {
	W uint8
	C float64
	S *Term
}

type Str struct {
	C string
	S []Int // non-nil => symbolic bytes, len(S) is the length
}

type Struct []Value
type Array []Value

type Slice struct {
	B   []Value // backing store from the slice's offset; len(B) == cap
	N   int
	Nil bool
}

type Iface struct {
	T types.Type
	V Value
}

type Tuple []Value

type Closure struct {
	Fn  *ssa.Function
	Env []Value
}

type NilFunc struct{}

type Native struct {
	Kind string
	V    interface{}
	Aux  interface{}
}

type Map struct {
	Keys []Value
	Vals []Value
	idx  map[interface{}]int
	dead int
	nsym int
}

type MapIter struct {
	m     *Map
	order []int
	pos   int
	keys  []Value
}

type StrIter struct {
	s   Str
	pos int
}

func (s Str) Len() int {
	if s.S != nil {
		return len(s.S)
	}
	return len(s.C)
}

func (s Str) IsConc() bool {
	if s.S == nil {
		return true
	}
	for _, b := range s.S {
		if b.S != nil {
			return false
		}
	}
	return true
}

func (s Str) Conc() string {
	if s.S == nil {
		return s.C
	}
	bs := make([]byte, len(s.S))
	for i, b := range s.S {
		bs[i] = byte(b.C)
	}
	return string(bs)
}

func (s Str) At(i int) Int {
	if s.S != nil {
		return s.S[i]
	}
	return Int{W: 8, C: int64(s.C[i])}
}

func (s Str) Sub(lo, hi int) Str {
	if s.S != nil {
		r := Str{S: s.S[lo:hi:hi]}
		if r.S == nil {
			r.S = []Int{}
		}
		return r.norm()
	}
	return Str{C: s.C[lo:hi]}
}

func (s Str) norm() Str {
	if s.S != nil && s.IsConc() {
		return Str{C: s.Conc()}
	}
	return s
}

func (s Str) Bytes() []Int {
	if s.S != nil {
		return s.S
	}
	r := make([]Int, len(s.C))
	for i := 0; i < len(s.C); i++ {
		r[i] = Int{W: 8, C: int64(s.C[i])}
	}
	return r
}

func strFromBytes(bs []Int) Str {
	r := Str{S: append([]Int{}, bs...)}
	return r.norm()
}

func strConcat(parts ...Str) Str {
	allc := true
	for _, p := range parts {
		if p.S != nil {
			allc = false
		}
	}
	if allc {
		var sb strings.Builder
		for _, p := range parts {
			sb.WriteString(p.C)
		}
		return Str{C: sb.String()}
	}
	var bs []Int
	for _, p := range parts {
		bs = append(bs, p.Bytes()...)
	}
	if bs == nil {
		bs = []Int{}
	}
	return Str{S: bs}
}

func mkInt(t types.Type, v int64) Int {
	w, sg := intKind(t)
	return normInt(Int{W: w, Sg: sg, C: v})
}

func normInt(x Int) Int {
	if x.S != nil {
		return x
	}
	switch x.W {
	case 8:
		if x.Sg {
			x.C = int64(int8(x.C))
		} else {
			x.C = int64(uint8(x.C))
		}
	case 16:
		if x.Sg {
			x.C = int64(int16(x.C))
		} else {
			x.C = int64(uint16(x.C))
		}
	case 32:
		if x.Sg {
			x.C = int64(int32(x.C))
		} else {
			x.C = int64(uint32(x.C))
		}
	}
	return x
}

func intKind(t types.Type) (uint8, bool) {
	b, ok := t.Underlying().(*types.Basic)
	if !ok {
		panic(fmt.Sprintf("intKind: not basic: %v", t))
	}
	switch b.Kind() {
	case types.Int, types.Int64, types.UntypedInt, types.UntypedRune:
		return 64, true
	case types.Int8:
		return 8, true
	case types.Int16:
		return 16, true
	case types.Int32:
		return 32, true
	case types.Uint, types.Uint64, types.Uintptr:
		return 64, false
	case types.Uint8:
		return 8, false
	case types.Uint16:
		return 16, false
	case types.Uint32:
		return 32, false
	}
	panic(fmt.Sprintf("intKind: %v", t))
}

func isIntType(t types.Type) bool {
	b, ok := t.Underlying().(*types.Basic)
	return ok && b.Info()&types.IsInteger != 0
}
func isFloatType(t types.Type) bool {
	b, ok := t.Underlying().(*types.Basic)
	return ok && b.Info()&types.IsFloat != 0
}
func isStringType(t types.Type) bool {
	b, ok := t.Underlying().(*types.Basic)
	return ok && b.Info()&types.IsString != 0
}
func isBoolType(t types.Type) bool {
	b, ok := t.Underlying().(*types.Basic)
	return ok && b.Info()&types.IsBoolean != 0
}

func typeRange(w uint8, sg bool) (int64, int64, bool) {
	if sg {
		switch w {
		case 8:
			return math.MinInt8, math.MaxInt8, true
		case 16:
			return math.MinInt16, math.MaxInt16, true
		case 32:
			return math.MinInt32, math.MaxInt32, true
		case 64:
			return math.MinInt64, math.MaxInt64, true
		}
	} else {
		switch w {
		case 8:
			return 0, math.MaxUint8, true
		case 16:
			return 0, math.MaxUint16, true
		case 32:
			return 0, math.MaxUint32, true
		case 64:
			return 0, math.MaxInt64, false // upper bound not representable
		}
	}
	return 0, 0, false
}

// zero returns the zero value of type t.
func zero(t types.Type) Value {
	switch t := t.(type) {
	case *types.Basic:
		if t.Kind() == types.Invalid {
			panic("zero: invalid type")
		}
		switch {
		case t.Info()&types.IsBoolean != 0:
			return Bool{}
		case t.Info()&types.IsInteger != 0:
			w, sg := intKind(t)
			return Int{W: w, Sg: sg}
		case t.Info()&types.IsFloat != 0:
			if t.Kind() == types.Float32 {
				return Float{W: 32}
			}
			return Float{W: 64}
		case t.Info()&types.IsString != 0:
			return Str{}
		case t.Kind() == types.UnsafePointer:
			return (*Value)(nil)
		case t.Kind() == types.UntypedNil:
			return nil
		}
		panic(unsupported("zero of basic type " + t.String()))
	case *types.Pointer:
		return (*Value)(nil)
	case *types.Array:
		a := make(Array, t.Len())
		for i := range a {
			a[i] = zero(t.Elem())
		}
		return a
	case *types.Named:
		return zero(t.Underlying())
	case *types.Alias:
		return zero(types.Unalias(t))
	case *types.Interface:
		return Iface{}
	case *types.Slice:
		return Slice{Nil: true}
	case *types.Struct:
		s := make(Struct, t.NumFields())
		for i := range s {
			s[i] = zero(t.Field(i).Type())
		}
		return s
	case *types.Tuple:
		if t.Len() == 1 {
			return zero(t.At(0).Type())
		}
		s := make(Tuple, t.Len())
		for i := range s {
			s[i] = zero(t.At(i).Type())
		}
		return s
	case *types.Chan:
		return (*Native)(nil)
	case *types.Map:
		return (*Map)(nil)
	case *types.Signature:
		return NilFunc{}
	}
	panic(unsupported(fmt.Sprintf("zero of %T %v", t, t)))
}

// copyVal makes a copy of a value with value semantics (arrays and structs are deep-copied).
func copyVal(v Value) Value {
	switch v := v.(type) {
	case Struct:
		a := make(Struct, len(v))
		for i, e := range v {
			a[i] = copyVal(e)
		}
		return a
	case Array:
		a := make(Array, len(v))
		for i, e := range v {
			a[i] = copyVal(e)
		}
		return a
	}
	return v
}

type unsupportedErr struct{ msg string }

func unsupported(msg string) unsupportedErr { return unsupportedErr{msg} }

// goPanic is a run-time panic of the program under analysis.
type goPanic struct {
	msg string
	pos string
}

// pathStop ends the current path silently (infeasible assumption, budget, …).
type pathStop struct {
	kind string
	msg  string
}

func (m *Map) lookupIdx(key interface{}) (int, bool) {
	i, ok := m.idx[key]
	return i, ok
}
