#!/usr/bin/env python3
# Regenerates MANIFEST.json from the table below (kept in one place so it stays valid and current).
import json, os
SETUP = "cd /verif/engine && GOFLAGS=-mod=mod GOPROXY=off GOSUMDB=off GOTOOLCHAIN=local go build -o ../bin/ssasmt . && ../bin/ssasmt validate"
TECH = "bounded symbolic execution of go/ssa of the real functions into SMT-LIB2 (z3), path-at-a-time; each assertion and implicit run-time check decided by the solver for all values on the path; sat models replayed natively"
NOTE = "Trusted: go/ssa translation by own interpreter (validated against native runs), z3 unsat answers, stdlib models listed in evidence.intrinsics; claim holds only inside the bounds in evidence.coverage.harnesses[].bounds; 64-bit ints."
claimed = {
 "C01": ("5.C01", "SubRip: read(render(model)) = model for 0..2 cues with symbolic ms times in [0,100h), 1..2 lines from a corpus of 8 marked-up/escaped texts (bold/italic/underline/font colour, &amp; &lt; &nbsp;, multi-byte runes), 12/48 rendering profiles cycling EOL kind, BOM, index numeric/absent/garbage, 1..3 blank lines, 0..3 at EOF, ',' or '.', 1..3 fraction digits, arrow spacing, trailing coordinates; write -> independent byte-level decoder and write -> library reader for 1..2 cues with symbolic ns times in each of the 24 digit-shape classes; escaping lemma unescape(escape(s)) = s for all strings of up to 4/5 bytes over the entity alphabet. The markup tokenizer (x/net/html) runs natively on the concrete corpus texts and is not encoded."),
 "C02": ("5.C02", "WebVTT: read(render(model)) = model for 0..2 cues (symbolic ms times, hours optional), 0..2 regions with attribute subsets, optional STYLE block and X-TIMESTAMP-MAP (symbolic LOCAL and MPEGTS), NOTE comments, ids, settings subsets, tab/space, header trailing text, EOL kinds, BOM over 12/48 profiles; text lines from a corpus of 8 (voice, nested tags with classes/annotation, inline timestamps, entities); write -> read for 1..2 cues with symbolic ns times per digit-shape class incl. consecutive numbering and region-defined-before-use; timestamp-map offset formula. Tag reading (x/net/html, regexp) runs natively on the concrete corpus."),
 "C04": ("5.C04", "SSA/ASS: style rows under 12/60 Format lines (permuted subsets of 13 representative columns incl. Name position, v4/v4+ spelling) with symbolic values - booleans, 8 symbolic hex digits, decimal colours of every length, ints, small decimals: each attribute equals the value in its column, absent columns stay unset; Dialogue rows under 10/40 event Format permutations with symbolic H:MM:SS.cc / HH:MM:SS.cc digits, Marked/Layer, margins, '*'-prefixed style refs, commas in text, \\N/\\n lines and {..} runs, junk/comment/Picture lines and unknown sections ignored; write -> read -> write for 24/48 shapes (heterogeneous style attribute sets, 1..2 cues with symbolic ns times, multi-run lines): attributes (true booleans), cs-truncated times, script info, byte-identical second write."),
 "C05": ("5.C05", "EBU STL: for every byte of the Latin code table (symbolic byte, table lookups decided by the solver) encode(decode(b)) = b, and for every diacritic x letter pair (two symbolic bytes) read composes and write decomposes to the same two bytes; write -> read for 12/36 shapes (open subtitling: frame rate 25/30, symbolic justification and vertical position, 1..2 cues, 1..2 rows, italic/underline runs, Latin-repertoire texts, 11 GSI metadata fields, block sizes 1024+128n); reader: symbolic time-code-in m:s:f at 25/30 fps minus programme start unless ignored, user-data blocks skipped. Teletext display standards: write -> read is a known finding (text not boxed). Timecode arithmetic itself: C16."),
 "C09": ("5.C09", "All cue lists of 0..3 (quick) / 0..5 (thorough) cues in any order/overlap with 0<=start<=end<2^47 ns and every shift d in [-2^47,2^47] (64-bit bit-vectors, exact wrap-around): survivors, clamping, removal, identity/order, and the inverse shift are decided by the solver on every feasible path of the real Add."),
 "C10": ("5.C10", "Fragment on every start-ordered list of 1..2/1..3 cues (overlaps, nesting, duplicates allowed) and 1..3/1..4 overlap-free cues, period f in [1,2^40] ns symbolic, all ends <= K*f (K=3/4 windows): no piece strictly contains a multiple of f, output start-ordered, pieces are exactly the consecutive cuts of each original carrying its text/style/region, uncut cues keep identity. Symbolic division by f handled by quotient case-split."),
 "C11": ("5.C11", "Unfragment on every list of 1..3/1..4 cues (any order, overlaps, 2/3 text classes incl. same text spread over two runs) with symbolic times: ordered, no same-text cues touch/overlap, same texts on screen at a fresh symbolic instant, isolated cues untouched; inverse law Unfragment(Fragment(L,f)) restores L for 1..2/1..3 cues, f symbolic, 3 windows."),
 "C12": ("5.C12", "Order on 0..3/0..4 cues and Merge on |A|<=2/3,|B|<=2 with symbolic starts (ties included): permutation, non-decreasing, stable, A before B; region/style union over ids {x,y}/{x,y,z} with every subset split and every map iteration order; receiver without constructor."),
 "C13": ("5.C13", "Optimize over every acyclic reference graph with 2/3 styles (arbitrary parent links), 1/2 regions, 1/2 cues, symbolic pairwise-distinct identifiers (every id comparison is a solver decision), every map iteration order: kept = exactly reachable, references resolve, cues untouched, idempotent, empty list untouched. RemoveStyling over all nil/non-nil styling combinations of the first cue."),
 "C15": ("5.C15", "ApplyLinearCorrection with the float64 steps modelled as relaxed reals: for 5/9 concrete reference quadruples (NTSC/PAL ratios 25/23.976, 23.976/25, 30/29.97, 1, 1/2, 2, 3/2, ...) and every pair of boundaries t1<=t2 in [0,24h] at 1 ns: both images within 1 us of the exact affine map (checked in exact integer arithmetic with the slope in lowest terms), order preserved, length scaled, text/identity untouched; for a fully symbolic quadruple (a2-a1>=1ms, slope in [1/2,2], values in [0,24h]; nonlinear real arithmetic, z3 5.1) a1 lands on d1 and a2 on d2 within 1 us; list level: every cue's both boundaries corrected."),
 "C19": ("5.C19", "Each of SRT/WebVTT/SSA/STL written twice with independent symbolic map-iteration orders (every order of up to 2/3 styles and 1/2 regions, all 4^n attribute-subset patterns) gives equal bytes; TTML: equal value handed to the XML encoder; no writer modifies its input (deep comparison with a pre-image, 5 writers, symbolic cue boundary); STL dates come from the metadata when present and from the injectable clock only otherwise."),
 "C20": ("5.C20", "Write-freedom on shared state instead of interleavings: after package initialisation every object reachable from a package-level variable of astisub (except Now) is frozen; on every feasible path of 3 readers, 4 writers (+STL write/read), and 8 transformations no store or map insert targets a frozen object. A hit is confirmed natively by running the call on 4 goroutines under the race detector. Schedules themselves are not explored."),
 "C16": ("5.C16", "Every instant i in [0,100h) at 1 ns resolution (mathematical-integer encoding, mixed-radix decomposition of the divisions, relaxed-real model of the float64 steps, z3 5.1): SRT/WebVTT/TTML/SSA rendering has the grammar's shape, the same format's reader returns floor(i) at ms resp. cs, a second write is identical, rendering is monotone; STL 4-byte and 8-digit timecodes for every d in [0,24h) at 25 and 30 fps: fields, frame < rate, reader within 1 ns of the frame instant, second write identical."),
 "C17": ("5.C17", "Line scanner: for every document of 1..4/1..5 bytes over {CR,LF,other} and every delivery schedule (any chunking, empty reads, data together with EOF) the real bufio.Scanner (executed from SSA) with astisub's split function yields the one-read token sequence; prefix-stability and progress lemmas of the split function for 1..6/1..8 symbolic bytes; readNBytes for every conformant delivery of 1..3/1..4-byte blocks; ReadFromSTL under 9 split points x EOF modes."),
 "C18": ("5.C18", "A non-EOF read fault after every byte offset k of a two-cue SRT/WebVTT/SSA document (symbolic digits) and at 8 offsets of an STL file yields a non-nil error; a 65537-byte line yields an error (real bufio.Scanner buffer logic from SSA); a fault at every Write call of each of the 4 non-XML writers yields an error and a fault-free write hands over exactly the document; Open/Write report failing os.Open/os.Create (stubbed)."),
 "C14": ("5.C14", "ForceDuration on every start-ordered list with non-decreasing ends of 0..3/0..5 cues, times < 2^46 ns and d >= 1ms symbolic, filler symbolic: removal, clipping, filler [d-1ms,d), exact-duration no-op, resulting Duration()."),
}
wip = "check not built yet in this session (work in progress, see DESIGN.md section 9)"
na = {
 "C03": wip, "C06": wip, "C07": wip, "C08": wip,
 
}
# allow overrides from a side file edited by later steps
exec(open(os.path.join(os.path.dirname(__file__), "manifest_table.py")).read()) if os.path.exists(os.path.join(os.path.dirname(__file__), "manifest_table.py")) else None
checks = []
for pid in sorted(claimed):
    ref, text = claimed[pid]
    checks.append({
        "property_id": pid,
        "quick_cmd": "./check %s quick" % pid,
        "thorough_cmd": "./check %s thorough" % pid,
        "evidence_file": "/verif/evidence/%s.json" % pid,
        "replay_cmd_template": "./check --replay {path}",
        "engine": "ssasmt",
        "level_claimed": {"category": "model_checking", "text": "Bounded, solver-decided: " + text, "design_ref": ref},
        "level_note": NOTE,
        "technique": TECH,
    })
m = {
 "version": 1,
 "setup_cmd": SETUP,
 "hooks": {"guard": "verif", "enable": "none needed: harnesses are injected as overlay files (/verif/harness/zz_verif_*.go presented as /repo/zz_verif_*.go via go/packages Overlay and go test -overlay); /repo carries no tagged code",
           "baseline_off_cmd": "cd /repo && go test -vet=off -count=1 ./...", "source_commits": [], "add_only": True},
 "engines": [{"name": "ssasmt", "path": "/verif/engine", "serves_properties": sorted(claimed), "kind_free_text": "symbolic executor for go/ssa (x/tools v0.29.0) emitting SMT-LIB2 to z3 4.8.12 over a pipe; harnesses in /verif/harness"}],
 "checks": checks,
 "not_applicable": [{"property_id": k, "reason": v} for k, v in sorted(na.items()) if k not in claimed],
 "notes": "Exit 0: property held on everything explored inside the stated bounds; exit 1 + VIOLATION line: a counterexample replayed against the native package; exit 2 + ENGINE-ERROR: the check itself is broken. Known findings: /verif/known_findings.txt.",
}
json.dump(m, open(os.path.join(os.path.dirname(__file__), "MANIFEST.json"), "w"), indent=1)
print("claimed:", sorted(claimed), "n/a:", [x["property_id"] for x in m["not_applicable"]])
