#!/bin/bash
# usage: seedtest.sh <seed-name> <property> <dir with patch.diff demo_test.go notes.md>
# Confirms a seeded change in a scratch worktree (suite passes, demo fails with / passes without), then runs the
# property's quick check against /repo with the patch applied, reverts, and files everything under /verif/seeded/<name>/.
set -u
name=$1; prop=$2; src=$3
export GOFLAGS=-mod=mod GOPROXY=off GOSUMDB=off GOTOOLCHAIN=local
wt=$(mktemp -d /tmp/seedwt.XXXXXX); rmdir $wt
git -C /repo worktree add -q $wt HEAD || exit 2
cleanup() { git -C /repo worktree remove --force $wt >/dev/null 2>&1; }
trap cleanup EXIT
out=/verif/seeded/$name; mkdir -p $out
cd $wt
if ! git apply --check $src/patch.diff 2>/dev/null; then echo "SEED $name: patch does not apply to current /repo HEAD"; exit 3; fi
cp $src/demo_test.go $wt/zz_seed_demo_test.go
demo_clean=$(go test -vet=off -count=1 -run 'Demo|C[0-9][0-9]' . 2>&1 | tail -1)
git apply $src/patch.diff
rm -f $wt/zz_seed_demo_test.go
suite=$(go test -vet=off -count=1 ./... 2>&1 | tail -3 | tr '\n' ' ')
cp $src/demo_test.go $wt/zz_seed_demo_test.go
demo_mut=$(go test -vet=off -count=1 -run 'Demo|C[0-9][0-9]' . 2>&1 | grep -c "^--- FAIL")
echo "SEED $name: demo on clean tree: $demo_clean | suite with patch: $suite | failing demo tests with patch: $demo_mut"
cd /verif
git -C /repo apply $src/patch.diff || exit 3
res=$(./check $prop quick --noevidence 2>&1); rc=$?
git -C /repo checkout -- .
echo "$res" | grep -E "VIOLATION|harness=|ENGINE-ERROR|UNDECIDED|^OK" | head -12
cp $src/patch.diff $out/patch.diff; cp $src/demo_test.go $out/demo_test.go; cp $src/notes.md $out/notes.md 2>/dev/null
caught=false; [ $rc -eq 1 ] && caught=true
python3 - "$name" "$prop" "$demo_clean" "$suite" "$demo_mut" "$rc" "$caught" <<'PY' > $out/meta.json
import sys, json
name, prop, demo_clean, suite, demo_mut, rc, caught = sys.argv[1:8]
print(json.dumps({"seed": name, "property": prop, "demo_on_clean_tree": demo_clean, "suite_with_patch": suite,
  "failing_demo_tests_with_patch": int(demo_mut), "check_cmd": "./check %s quick" % prop, "check_exit_code": int(rc),
  "caught_by_quick_check": caught == "true", "needs_to_manifest": "see notes.md"}, indent=1))
PY
echo "SEED $name: check exit=$rc caught=$caught"
